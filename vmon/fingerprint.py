"""M-fingerprint: observable identity of relations, used to detect any change to
previously obtained relations (C09, C20 'leaves everything unchanged', C07)."""
from __future__ import annotations

from . import bootstrap, interp

bootstrap.ensure()

import lsst.daf.relation as R  # noqa: E402
from lsst.daf.relation import iteration, sql  # noqa: E402


def payload_fp(p):
    if p is None:
        return None
    if isinstance(p, sql.Payload):
        return ("sql", id(p.from_clause), tuple(str(w) for w in p.where), tuple(sorted((str(k), str(v)) for k, v in p.columns_available.items())))
    if isinstance(p, iteration.RowSequence):
        return ("seq", tuple(tuple(sorted((str(k), v) for k, v in r.items())) for r in p.rows))
    if isinstance(p, iteration.RowMapping):
        return ("map", tuple(str(k) for k in p.unique_key), tuple(tuple(sorted((str(k), v) for k, v in r.items())) for r in p.rows.values()))
    if isinstance(p, iteration.ChainRowIterable):
        # a lazily chained payload: its observable content is what iterating it yields
        return ("chain", tuple(tuple(sorted((str(k), v) for k, v in r.items())) for r in p))
    rows = getattr(p, "_rows", None)
    if rows is not None:
        return ("counting", tuple(tuple(sorted((str(k), v) for k, v in r.items())) for r in rows))
    return ("other", id(p))


def safe_hash(rel):
    try:
        return ("hash", hash(rel))
    except Exception as exc:  # noqa: BLE001
        return ("unhashable", type(exc).__name__)


def fingerprint(rel, with_payloads=True, marker_payloads=False):
    """``marker_payloads``: also the content of payloads held by Transfer / Materialization nodes
    (only meaningful for trees whose markers already carry their payloads, e.g. what a Processor
    returned: on other trees materializations legitimately *gain* payloads)."""
    fp = [repr(rel), str(rel), tuple(sorted(map(str, rel.columns))), rel.min_rows, rel.max_rows, safe_hash(rel), str(rel.engine), rel.is_locked]
    if with_payloads:
        leafs = []
        for n in interp.walk(rel):
            if isinstance(n, R.LeafRelation):
                leafs.append((n.name, payload_fp(n.payload)))
            elif marker_payloads and isinstance(n, (R.Transfer, R.Materialization)) and n.payload is not None:
                leafs.append((type(n).__name__, payload_fp(n.payload)))
        fp.append(tuple(leafs))
    return tuple(fp)
