"""Reference model of relational semantics on program ASTs.

Rows are ``dict`` name -> int, relations are lists.  The model evaluates the
*sequence of factory calls* (the program), never the library's tree, so any
merging / elision / commutation the library performs cannot leak into the
expected value.

Program AST (JSON lists)::

    ["leaf", name]
    ["calc", sub, tag, e, opt] ["proj", sub, [cols], opt] ["sel", sub, p, opt]
    ["dedup", sub, opt] ["sort", sub, [[e, asc], ...], opt] ["slice", sub, start, stop]
    ["chain", lhs, rhs] ["join", lhs, rhs, p|None, jopt]
    ["mat", sub, name] ["xfer", sub, engine_name]

``opt`` / ``jopt`` carry preferred-engine options and are ignored here.
"""
from __future__ import annotations

import dataclasses
import functools

from .exprs import ecols, ev, pcols, pv
from .tags import is_key


class Skip(Exception):
    """The case is outside a documented precondition; discard and count."""

    def __init__(self, reason: str):
        super().__init__(reason)
        self.reason = reason


class ModelError(Exception):
    """The program is ill-typed according to the model."""


@dataclasses.dataclass
class MRel:
    cols: frozenset
    rows: list
    det: bool  # list order is determined independently of any scan order
    sort_cols: frozenset | None = None  # columns used by the sort that defines the order
    sort_visible: bool = True  # those columns are all still present
    engine: str | None = None  # engine the relation lives in (None if unknown)
    fd_ok: bool = True  # here and everywhere upstream, non-key columns depend on the key columns present


def allsame(rows) -> bool:
    return all(r == rows[0] for r in rows) if rows else True


def m_sort(rows, terms):
    def cmp(r1, r2):
        for e, asc in terms:
            v1, v2 = ev(e, r1), ev(e, r2)
            if v1 == v2:
                continue
            if asc:
                return -1 if v1 < v2 else 1
            return 1 if v1 < v2 else -1
        return 0

    return sorted(rows, key=functools.cmp_to_key(cmp))


def sort_is_total(rows, terms) -> bool:
    groups: dict = {}
    for r in rows:
        groups.setdefault(tuple(ev(e, r) for e, _ in terms), []).append(r)
    return all(allsame(g) for g in groups.values())


def m_dedup(rows):
    seen = set()
    out = []
    for r in rows:
        k = tuple(sorted(r.items()))
        if k not in seen:
            seen.add(k)
            out.append(r)
    return out


def fd_holds(rows, cols) -> bool:
    """Non-key columns functionally depend on the key columns present."""
    keys = sorted(c for c in cols if is_key(c))
    seen: dict = {}
    for r in rows:
        k = tuple(r[c] for c in keys)
        if seen.setdefault(k, r) != r:
            return False
    return True


def slice_order_independent(rows, start, stop) -> bool:
    n = len(rows)
    return (
        allsame(rows)
        or (start == 0 and (stop is None or stop >= n))
        or start >= n
        or (stop is not None and stop <= start)
    )


class Model:
    """Evaluate programs.  ``sql_slices`` enables the non-deterministic-slice
    precondition; ``key_dedup`` the functional-dependency precondition of the
    iteration engine's key-only deduplication."""

    def __init__(self, leaves: dict, sql_slices: bool = False, key_dedup: bool = False, strict_fragile: bool = False, ordered_engines=(), stable_sorts: bool = False):
        self.leaves = leaves
        # ``stable_sorts``: a sort applied to a relation whose order was already defined by an
        # earlier, still visible sort composes stably with it (new terms first, earlier terms as
        # tie-breakers - the documented meaning of back-to-back sorts, Sort.then).  Only valid for
        # an engine when both sorts end up at the same query level; the caller checks that.
        self.stable_sorts = stable_sorts
        # engines whose leaves deliver rows in a defined (payload) order; entering any other
        # engine through a transfer forgets the order
        self.ordered_engines = set(ordered_engines)
        self.sql_slices = sql_slices
        self.key_dedup = key_dedup
        self.strict_fragile = strict_fragile
        self.memo: dict = {}
        self.node_results: list = []  # (prog, MRel) in evaluation order

    def eval(self, prog) -> MRel:
        key = repr(prog)
        if key in self.memo:
            return self.memo[key]
        res = self._eval(prog)
        if not res.det and allsame(res.rows):
            res.det = True
        if self.key_dedup and prog[0] != "dedup":
            # the documented contract of ColumnTag.is_key must hold wherever the library may
            # legitimately place a (key-only) deduplication, i.e. at every relation upstream of it
            kids = [prog[1], prog[2]] if prog[0] in ("chain", "join") else ([prog[1]] if prog[0] != "leaf" else [])
            res.fd_ok = all(self.memo[repr(k)].fd_ok for k in kids) and fd_holds(res.rows, res.cols)
        self.memo[key] = res
        self.node_results.append((prog, res))
        return res

    def _eval(self, prog) -> MRel:
        op = prog[0]
        if op == "leaf":
            spec = self.leaves[prog[1]]
            cols = list(spec["cols"])
            rows = [dict(zip(cols, r)) for r in spec["rows"]]
            return MRel(frozenset(cols), rows, len(rows) <= 1 or spec.get("engine") in self.ordered_engines, engine=spec.get("engine"))
        if op == "mat":
            t = self.eval(prog[1])
            # a SQL materialization is a table: whatever order its query had is forgotten
            keep = t.det and not (t.engine or "").startswith("sql")
            return dataclasses.replace(t, rows=list(t.rows), det=keep)
        if op == "mark":
            return self.eval(prog[1])
        if op == "cap":
            t = self.eval(prog[1])
            return dataclasses.replace(t, rows=list(t.rows) if len(t.rows) <= prog[2] else [])
        if op == "rev":
            t = self.eval(prog[1])
            return dataclasses.replace(t, rows=list(reversed(t.rows)))
        if op == "alt":
            t = self.eval(prog[1])
            if not t.det:
                raise Skip("nondeterministic_slice")  # which rows are "every other one" depends on the order
            return dataclasses.replace(t, rows=list(t.rows[::2]))
        if op == "xfer":
            t = self.eval(prog[1])
            keep = t.det and not prog[2].startswith("sql") and (not self.ordered_engines or prog[2] in self.ordered_engines)
            return dataclasses.replace(t, rows=list(t.rows), det=keep, engine=prog[2])
        if op == "chain":
            a, b = self.eval(prog[1]), self.eval(prog[2])
            if a.cols != b.cols:
                raise ModelError("chain columns differ")
            # concatenation in an order-keeping engine is determined if both operands are
            det = a.det and b.det and a.engine == b.engine and a.engine in self.ordered_engines
            return MRel(a.cols, [dict(r) for r in a.rows] + [dict(r) for r in b.rows], det, engine=a.engine)
        if op == "join":
            a, b = self.eval(prog[1]), self.eval(prog[2])
            p = prog[3]
            shared = a.cols & b.cols
            jopt = prog[4] if len(prog) > 4 and isinstance(prog[4], dict) else {}
            explicit = jopt.get("minmax")
            if explicit is not None:
                # explicit, already resolved equality columns (possibly non-key ones): every column the
                # operands share has to be one of them, or its value would be ambiguous
                if not set(explicit) <= shared:
                    raise ModelError("explicit join columns missing")
                if shared - set(explicit):
                    raise Skip("ambiguous_join_column_outside_explicit_columns")
            elif any(not is_key(c) for c in shared):
                raise Skip("ambiguous_nonkey_join_column")
            if p is not None and not pcols(p) <= (a.cols | b.cols):
                raise ModelError("join predicate columns missing")
            common = sorted(shared)
            rows = []
            for left in a.rows:
                for right in b.rows:
                    if all(left[c] == right[c] for c in common):
                        row = {**left, **right}
                        if p is None or pv(p, row):
                            rows.append(row)
            return MRel(a.cols | b.cols, rows, False, engine=b.engine if (a.engine != b.engine) else a.engine)
        t = self.eval(prog[1])
        if op == "calc":
            tag, e = prog[2], prog[3]
            if tag in t.cols:
                raise ModelError("calculated tag exists")
            if not ecols(e) or not ecols(e) <= t.cols:
                raise ModelError("calculation columns")
            return dataclasses.replace(t, cols=t.cols | {tag}, rows=[{**r, tag: ev(e, r)} for r in t.rows])
        if op == "proj":
            keep = frozenset(prog[2])
            if not keep <= t.cols:
                raise ModelError("projection columns missing")
            visible = t.sort_visible and (t.sort_cols is None or t.sort_cols <= keep)
            return dataclasses.replace(
                t, cols=keep, rows=[{c: r[c] for c in keep} for r in t.rows], sort_visible=visible
            )
        if op == "sel":
            p = prog[2]
            if not pcols(p) <= t.cols:
                raise ModelError("selection columns missing")
            return dataclasses.replace(t, rows=[r for r in t.rows if pv(p, r)])
        if op == "dedup":
            if self.key_dedup and not (t.fd_ok and fd_holds(t.rows, t.cols)):
                raise Skip("fd_precondition")
            if self.strict_fragile and t.det and not t.sort_visible and len(m_dedup(t.rows)) != len(t.rows):
                # DISTINCT over a projection that dropped the ORDER BY key: which duplicate
                # "comes first" is not expressible in SQL; order afterwards is not asserted.
                return dataclasses.replace(t, rows=m_dedup(t.rows), det=False)
            return dataclasses.replace(t, rows=m_dedup(t.rows))
        if op == "sort":
            terms = prog[2]
            if not terms:
                return dataclasses.replace(t, rows=list(t.rows))
            need = set().union(*[ecols(e) for e, _ in terms])
            if not need <= t.cols:
                raise ModelError("sort columns missing")
            rows = m_sort(t.rows, terms)
            if self.stable_sorts and prog[1][0] == "sort" and prog[1][2]:
                # directly adjacent sorts: a stable sort of a stably sorted list is the sort by the
                # concatenated term list (new terms first) of what lies below them
                all_terms, inner = list(terms), prog[1]
                while inner[0] == "sort":
                    all_terms += list(inner[2])
                    inner = inner[1]
                base = self.eval(inner)
                rows = m_sort(base.rows, all_terms)
                cols_all = frozenset(set().union(*[ecols(e) for e, _ in all_terms]))
                return MRel(t.cols, rows, sort_is_total(rows, all_terms) or base.det and base.engine in self.ordered_engines, cols_all, True, engine=t.engine)
            if self.stable_sorts and t.det and t.sort_cols is not None and t.sort_visible and not sort_is_total(rows, terms):
                return MRel(t.cols, rows, True, frozenset(need) | t.sort_cols, True, engine=t.engine)
            # in an engine that keeps row order (iteration) a stable sort of a determined list is
            # determined even when the terms leave ties
            det = sort_is_total(rows, terms) or (t.det and t.engine in self.ordered_engines)
            return MRel(t.cols, rows, det, frozenset(need), True, engine=t.engine)
        if op == "slice":
            start, stop = prog[2], prog[3]
            if self.sql_slices and not t.det and not slice_order_independent(t.rows, start, stop):
                raise Skip("nondeterministic_slice")
            return dataclasses.replace(t, rows=list(t.rows[start:stop]))
        raise AssertionError(prog)


def canon(rows):
    return sorted(tuple(sorted(r.items())) for r in rows)


def subprograms(prog):
    """All sub-programs, children first."""
    op = prog[0]
    if op == "leaf":
        yield prog
        return
    if op in ("chain", "join"):
        yield from subprograms(prog[1])
        yield from subprograms(prog[2])
    else:
        yield from subprograms(prog[1])
    yield prog


def show(prog) -> str:
    from .exprs import show_e, show_p

    op = prog[0]
    if op == "leaf":
        return prog[1]
    if op == "chain":
        return f"({show(prog[1])} U {show(prog[2])})"
    if op == "join":
        p = f" on {show_p(prog[3])}" if prog[3] is not None else ""
        return f"({show(prog[1])} JOIN {show(prog[2])}{p})"
    s = show(prog[1])
    o = prog[-1] if isinstance(prog[-1], dict) else None
    suffix = ""
    if o and o.get("pe"):
        suffix = f"@{o['pe']}{'b' if o.get('bt', True) else ''}{'t' if o.get('tr') else ''}{'r' if o.get('rq') else ''}"
    if op == "calc":
        return f"{s}.calc{suffix}({prog[2]}={show_e(prog[3])})"
    if op == "proj":
        return f"{s}.proj{suffix}({','.join(prog[2])})"
    if op == "sel":
        return f"{s}.sel{suffix}({show_p(prog[2])})"
    if op == "dedup":
        return f"{s}.dedup{suffix}()"
    if op == "sort":
        return f"{s}.sort{suffix}({','.join(('' if a else '-') + show_e(e) for e, a in prog[2])})"
    if op == "slice":
        return f"{s}[{prog[2]}:{prog[3]}]"
    if op == "mat":
        return f"{s}.mat({prog[2]})"
    if op == "mark":
        return f"{s}.mark({prog[2]})"
    if op == "cap":
        return f"{s}.cap({prog[2]})"
    if op == "rev":
        return f"{s}.rev()"
    if op == "alt":
        return f"{s}.alt()"
    if op == "xfer":
        return f"{s}.to({prog[2]})"
    return str(prog)
