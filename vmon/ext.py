"""Extension types built on the library's documented extension points (RowFilter, Reordering,
MarkerRelation subclasses).  The independent interpreter evaluates them through ``vmon_apply``."""
from __future__ import annotations

import dataclasses

from . import bootstrap

bootstrap.ensure()

import lsst.daf.relation as R  # noqa: E402


@dataclasses.dataclass(frozen=True)
class RowCap(R.RowFilter):
    """Passes its target through if it has at most ``n`` rows, else yields nothing:
    depends on the row count but not on the row order."""

    n: int = 3

    @property
    def is_empty_invariant(self) -> bool:
        return False

    @property
    def is_order_dependent(self) -> bool:
        return False

    @property
    def is_count_dependent(self) -> bool:
        return True

    def __str__(self) -> str:
        return f"cap[{self.n}]"

    def vmon_apply(self, rows):
        return list(rows) if len(rows) <= self.n else []


@dataclasses.dataclass(frozen=True)
class Alternate(R.RowFilter):
    """Keeps every other row (the 1st, 3rd, ...), declared order-dependent but NOT count-dependent.

    NOT USED by any registered workload: the declaration is inconsistent with what the library's own
    rules assume (`Selection.commute` moves a selection past anything that is not count-dependent,
    which is wrong for a filter whose decision depends on the rows that precede a row), so C04 raises
    an alarm on the unchanged tree as soon as this operation takes part.  Kept for the record of
    seeded change C04-r11 (DESIGN.md section 10)."""

    @property
    def is_empty_invariant(self) -> bool:
        return True

    @property
    def is_order_dependent(self) -> bool:
        return True

    @property
    def is_count_dependent(self) -> bool:
        return False

    def __str__(self) -> str:
        return "alternate"

    def vmon_apply(self, rows):
        return list(rows)[::2]


@dataclasses.dataclass(frozen=True)
class Reverse(R.Reordering):
    """Reverses the row order (a reordering that depends on the incoming order)."""

    @property
    def is_order_dependent(self) -> bool:
        return True

    def __str__(self) -> str:
        return "reverse"

    def vmon_apply(self, rows):
        return list(reversed(rows))


@dataclasses.dataclass(frozen=True)
class Tagged(R.MarkerRelation):
    """A user-defined marker relation that only annotates its target."""

    label: str = "tag"

    def __str__(self) -> str:
        return f"tagged[{self.label}]({self.target})"
