"""Helpers shared by the checks."""
from __future__ import annotations

import collections

from . import bootstrap

bootstrap.ensure()

import lsst.daf.relation as R  # noqa: E402
from lsst.daf.relation import sql as Rsql  # noqa: E402

from . import interp  # noqa: E402
from .model import subprograms  # noqa: E402


def names_rows(rows):
    """Library rows (Mapping tag -> value) to list of dict name -> value.

    The row objects are collected first and converted afterwards, as a caller doing
    ``list(engine.execute(rel))`` would see them: a row mapping that the engine goes on to modify
    after handing it out (rows shared between branches of a tree) shows up in the values."""
    rows = list(rows)
    return [{t.qualified_name: v for t, v in r.items()} for r in rows]


def typed(rows):
    """Type-sensitive form of a list of name -> value rows (1, 1.0 and True compare equal but are
    different values to a caller; -0.0 is told from 0.0 by its repr)."""
    return [sorted((k, type(v).__name__, repr(v)) for k, v in r.items()) for r in rows]


def lib_census(rel) -> collections.Counter:
    c: collections.Counter = collections.Counter()
    for node in interp.walk(rel):
        if isinstance(node, R.UnaryOperationRelation):
            c[type(node.operation).__name__] += 1
        elif isinstance(node, R.BinaryOperationRelation):
            c[type(node.operation).__name__] += 1
        else:
            c[type(node).__name__] += 1
    return c


_PROG2LIB = {
    "calc": "Calculation", "proj": "Projection", "sel": "Selection", "dedup": "Deduplication",
    "sort": "Sort", "slice": "Slice", "chain": "Chain", "join": "Join", "mat": "Materialization",
    "xfer": "Transfer", "leaf": "LeafRelation", "mark": "Tagged", "cap": "RowCap", "rev": "Reverse", "alt": "Alternate",
}


def prog_census(prog) -> collections.Counter:
    c: collections.Counter = collections.Counter()
    seen = set()
    for sub in subprograms(prog):
        k = repr(sub)
        if k in seen:
            continue
        seen.add(k)
        c[_PROG2LIB[sub[0]]] += 1
    return c


def rewrite_counters(prog, rel) -> dict:
    """Which kinds of node the library merged/elided relative to the program."""
    pc, lc = prog_census(prog), lib_census(rel)
    out = {}
    for k in ("Calculation", "Projection", "Selection", "Deduplication", "Sort", "Slice", "Materialization", "Transfer", "Join", "Chain"):
        if lc.get(k, 0) < pc.get(k, 0):
            out[f"elided_or_merged_{k}"] = 1
        elif lc.get(k, 0) > pc.get(k, 0):
            out[f"extra_{k}"] = 1
    if lc.get("Select", 0) > 1:
        out["nested_select"] = 1
    return out


def short(obj, n=300) -> str:
    s = str(obj)
    return s if len(s) <= n else s[: n - 3] + "..."


def exc_str(exc) -> str:
    return f"{type(exc).__name__}: {short(exc, 240)}"
