"""C16 - Diagnostics never dooms a non-empty relation; exact with a truthful executor."""
from __future__ import annotations

from .. import bootstrap, gen, model, multi
from ..common import exc_str, short
from ..dbx import DB, BuildFailure, Builder, VProcessor, make_engines
from .c05 import gen_trivialish

bootstrap.ensure()

ID = "C16"
LEVEL = "exploration"
TECHNIQUE = "runtime monitoring: Diagnostics verdicts vs executed emptiness with a truthful executor"
RULE = (
    "seeded random trees in the iteration engine, the SQL engine and across engines, enriched with doomed and "
    "join-identity leaves, empty leaves with loose declared bounds, trivially false predicates (literal and folded), "
    "zero-limit and out-of-range slices, joins and chains of doomed and live branches.  Diagnostics.run(r) is called "
    "without an executor (is_doomed must imply that r has no rows) and with a truthful executor that really "
    "processes and executes the sub-relation it is handed (is_doomed must equal 'r has no rows'); every doomed "
    "verdict must carry >= 1 message.  The row count of r comes from executing r and is cross-checked with the "
    "reference model.  Non-trivial = r is empty or some branch is statically/dynamically empty; distinct = program "
    "skeleton x verdict pair x emptiness."
    "  The iteration and multi-engine modes contain user-defined operations (a RowFilter that is not empty-invariant, a Reordering, a marker relation); Diagnostics has to treat them by their declared flags. "
)
ASSUMPTIONS = [
    "the executor handed to Diagnostics is truthful by construction: it evaluates exactly the relation it is given "
    "(VProcessor + engine execution); emptiness is cross-checked against vmon/model.py",
    "non-deterministic slices discarded as in C02",
]
MIN_OBS = {"diagnosed": 800, "programs_with_user_defined_filter": 300, "empty_relations": 200, "doomed_without_executor": 100, "doomed_with_executor": 200, "executor_calls": 300}
CASE_TIMEOUT = 60


def budget(tier):
    if tier == "quick":
        return {"cases": 40000, "workers": 8, "watchdog_s": 1800}
    return {"cases": 1600000, "workers": 16, "watchdog_s": 3600, "budget_s": 600}


def gen_case(rng, tier):
    mode = rng.choice(["it", "sql", "multi"])
    common = dict(max_depth=2 if tier == "quick" or rng.random() < 0.6 else 3, raw_leaves=(mode == "it"), sort_then_slice_prob=0.5,
                  weights={"sel": 1.6, "slice": 1.4, "chain": 1.5, "join": 1.4, "sort": 0.5, "mat": 0.4}, max_rows_choices=(0, 0, 1, 2, 3, 5))
    if mode == "it":
        # incl. user-defined operations: a RowFilter that is not empty-invariant (it may remove every
        # row), a Reordering, a marker relation - Diagnostics has to treat them by their declared flags
        common["weights"] = dict(common["weights"], cap=1.2, rev=0.4, mark=0.4)
        cfg = gen.Cfg(engines=("it",), ops=("calc", "proj", "sel", "dedup", "sort", "slice", "chain", "mat", "cap", "rev", "mark"), **common)
    elif mode == "sql":
        cfg = gen.Cfg(engines=("sql",), ops=("calc", "proj", "sel", "dedup", "sort", "slice", "chain", "join"), **common)
    else:
        common["weights"] = dict(common["weights"], cap=0.8, rev=0.3, mark=0.3)
        cfg = gen.Cfg(engines=("sql", "it", "it2"), ops=("calc", "proj", "sel", "dedup", "sort", "slice", "chain", "join", "mat", "cap", "rev", "mark"), xfer_prob=0.2, **common)
    g = gen.Gen(rng, cfg)
    state = g.tree()
    # sprinkle emptiness-inducing operations
    for _ in range(rng.randint(0, 2)):
        prog, cols, eng = state
        r = rng.random()
        if r < 0.35:
            state = (["sel", prog, gen_trivialish(rng, cols), None], cols, eng)
        elif r < 0.6:
            k = rng.choice([0, 1, 3, 20])
            state = (["slice", prog, k, rng.choice([k, None, k + 1])], cols, eng)
        elif r < 0.8:
            nxt = g.unary(state, rng.choice(["sel", "dedup", "proj"]))
            state = nxt or state
    if rng.random() < 0.15:
        state = gen.chain_with_name_twin(g, state, rng) or state
    case = gen.case_from(g, state)
    case["mode"] = mode
    return case


def run_case(case):
    import lsst.daf.relation as R

    out = {"counters": {}, "violations": []}
    c = out["counters"]
    prog = case["prog"]
    label = model.show(prog)
    m = model.Model(case["leaves"], sql_slices=True, key_dedup=True, strict_fragile=True, ordered_engines=("it", "it2"))
    try:
        want = m.eval(prog)
    except model.Skip as s:
        out["skip"] = s.reason
        return out
    db = DB(shim=True)
    try:
        engines = make_engines(("sql", "it", "it2"))
        b = Builder(case["leaves"], engines, db)
        try:
            rel = b.build(prog)
        except BuildFailure as f:
            if "will not preserve row order" in str(f.exc):
                out["skip"] = "refused_order_loss"
            else:
                out["violations"].append({"kind": "rejected_valid_program", "detail": f"{exc_str(f.exc)} at {model.show(f.prog)}"})
            return out
        # static diagnostics first (before anything attaches payloads)
        try:
            d0 = R.Diagnostics.run(rel)
        except Exception as exc:  # noqa: BLE001
            out["violations"].append({"kind": "diagnostics_raised", "detail": f"{label}: {exc_str(exc)}"})
            return out
        try:
            rows, _, _ = multi.evaluate(rel, db)
        except Exception as exc:  # noqa: BLE001
            if "Joins are not supported by the iteration engine" in str(exc):
                out["skip"] = "iteration_join"
                return out
            if "will not preserve row order" in str(exc):
                out["skip"] = "evaluation_refused_at_process_time"  # C07's known finding, not a Diagnostics matter
                return out
            out["violations"].append({"kind": "not_evaluable", "detail": f"{label}: {exc_str(exc)}"})
            return out
        if model.canon(rows) != model.canon(want.rows):
            out["skip"] = "execution_differs_from_model"  # C01/C02/C07 territory
            c["execution_differs_from_model"] = 1
            return out
        empty = not rows
        calls = []

        def executor(r):
            calls.append(r)
            try:
                got, _, _ = multi.evaluate(r, db, VProcessor(db))
            except R.RelationalAlgebraError as exc:
                if "will not preserve row order" not in str(exc):
                    raise
                # an inner node that cannot be compiled on its own (re-conforming it trips the
                # row-order policy): answer truthfully from the independent interpreter instead
                c["executor_answers_from_interpreter"] = c.get("executor_answers_from_interpreter", 0) + 1
                from .. import interp

                got = interp.eval_tree(r, b.rows_of_leaf)[0]
            return bool(got)

        try:
            d1 = R.Diagnostics.run(rel, executor)
        except Exception as exc:  # noqa: BLE001
            out["violations"].append({"kind": "diagnostics_with_executor_raised", "detail": f"{label}: {exc_str(exc)}"})
            return out
        c["diagnosed"] = 1
        c["executor_calls"] = len(calls)
        if empty:
            c["empty_relations"] = 1
        if "f" in gen.op_signature(prog):
            c["programs_with_user_defined_filter"] = 1
        if d0.is_doomed:
            c["doomed_without_executor"] = 1
            if not empty:
                out["violations"].append({"kind": "doomed_but_has_rows", "detail": f"{label}: static diagnostics says doomed {d0.messages} but {len(rows)} rows; tree {short(rel, 300)}"})
            if not d0.messages:
                out["violations"].append({"kind": "doomed_without_message", "detail": f"{label} (no executor)"})
        if d1.is_doomed:
            c["doomed_with_executor"] = 1
            if not d1.messages:
                out["violations"].append({"kind": "doomed_without_message", "detail": f"{label} (with executor)"})
        if d1.is_doomed != empty:
            out["violations"].append({"kind": "executor_verdict_wrong", "detail": f"{label}: is_doomed={d1.is_doomed} but {len(rows)} rows; messages {d1.messages}; tree {short(rel, 300)}"})
        if empty or d0.is_doomed or d1.is_doomed or calls:
            out["sig"] = f"{case['mode']}:{gen.op_signature(prog)}:{int(d0.is_doomed)}{int(d1.is_doomed)}{int(empty)}"
            out["sample"] = {"mode": case["mode"], "program": label, "rows": len(rows), "static_doomed": d0.is_doomed, "executor_doomed": d1.is_doomed, "messages": d1.messages[:2], "executor_calls": len(calls)}
        return out
    finally:
        db.close()
