"""C15 - transfer/materialize simplifications keep content; locked trees are inviolate."""
from __future__ import annotations

import itertools

from .. import bootstrap, gen, interp, model, multi
from ..common import exc_str, lib_census, short
from ..dbx import DB, BuildFailure, Builder, make_engines
from ..monitors import structure
from . import c03

bootstrap.ensure()

ID = "C15"
LEVEL = "exploration"
TECHNIQUE = "runtime monitoring: locked-node identity monitor after every factory call + evaluated transfer round trips"
RULE = (
    "seeded random base trees with chains of transfers among a SQL engine and two iteration engines interleaved with "
    "operations, materializations and shared leaves (as in C03).  On every intermediate relation x: "
    "x.transferred_to(x.engine) must be x; x -> B -> x.engine and x -> B -> C -> x.engine round trips must end in "
    "x.engine and (root only, through a real Processor) evaluate to x's rows; materialized() of a leaf / of a "
    "materialization must not increase the number of Materialization nodes.  Then a final operation is requested with "
    "every preferred-engine option combination (24) and, after EVERY factory call, each LeafRelation / "
    "Materialization in the result that has the type and name of a locked node of an input tree must be that "
    "identical object (names are unique per case, so this detects rewritten copies, i.e. operations inserted "
    "upstream of a locked node).  Non-trivial = a round trip crossed >= 1 marker or backtracking met a locked node; "
    "distinct = (shape of trip / request, base skeleton tail, outcome)."
    "  Every program is also built a second time (relations that compare equal but are distinct objects) and every "
    "node of the first build is re-applied (reapply) to its twin's operand(s): the result must equal the twin and "
    "contain the twin's locked nodes.  SQL materializations are also re-applied (reapply) to a bare, not Select-rooted "
    "operand taken from Select.target / skip_to, and tree-building calls (deduplication, slice, selection, "
    "projection, materialized, Engine.conform) on the resulting locked node must return trees that contain it. "
    "  Every tree is also handed to a real Processor: a materialization with nothing for the Processor to rewrite upstream of it (no transfer, no chain with a statically empty operand) must be part of the returned tree as the identical object. "
)
ASSUMPTIONS = [
    "leaf and materialization names are unique within a case, so (type, name) identifies a locked node",
    "row comparison through vmon/dbx.py VProcessor + SQLite; non-deterministic slices discarded",
]
MIN_OBS = {"round_trips_checked": 2000, "round_trip_rows_compared": 300, "locked_identity_checks": 3000, "materialize_simplifications_checked": 300, "locked_nodes_seen_in_results": 3000}
CASE_TIMEOUT = 120


def setup(tier):
    pass


def budget(tier):
    if tier == "quick":
        return {"cases": 12000, "workers": 8, "watchdog_s": 1800}
    return {"cases": 480000, "workers": 16, "watchdog_s": 3600, "budget_s": 600}


def gen_case(rng, tier):
    case = c03.gen_case(rng, tier, custom_final=False)
    case["trip"] = [rng.choice(c03.ENG), rng.choice(c03.ENG)]
    return case


def run_case(case):
    import lsst.daf.relation as R

    out = {"counters": {}, "violations": [], "sigs": []}
    c = out["counters"]
    f = case["final"]
    db = DB(shim=True)
    try:
        engines = make_engines(c03.ENG)
        b = Builder(case["leaves"], engines, db)
        try:
            base = b.build(case["prog"])
            fixed = b.build(f["fixed"]) if f["kind"] == "join" else None
        except BuildFailure as bf:
            out["skip"] = "base_rejected"
            if not isinstance(bf.exc, R.RelationalAlgebraError):
                out["violations"].append({"kind": "undocumented_exception_at_construction", "detail": f"{exc_str(bf.exc)} at {model.show(bf.prog)}"})
            return out
        tail = gen.op_signature(case["prog"])[-4:]

        def locked(inputs, result, what):
            c["locked_identity_checks"] = c.get("locked_identity_checks", 0) + 1
            c["locked_nodes_seen_in_results"] = c.get("locked_nodes_seen_in_results", 0) + sum(len(v) for v in structure.locked_nodes(result).values())
            for kind, detail in structure.check_locked_identity(inputs, result):
                out["violations"].append({"kind": kind, "detail": f"{what}: {detail}; result {short(result, 300)}"})

        # ---- transfers and materializations on every intermediate relation
        for sub, x in b.nodes:
            what = model.show(sub)
            try:
                if x.transferred_to(x.engine) is not x:
                    out["violations"].append({"kind": "self_transfer_not_identity", "detail": what})
            except Exception as exc:  # noqa: BLE001
                out["violations"].append({"kind": "self_transfer_raised", "detail": f"{what}: {exc_str(exc)}"})
            for B, C in ((case["trip"][0], None), (case["trip"][0], case["trip"][1])):
                try:
                    y = x.transferred_to(engines[B])
                    if C is not None:
                        y = y.transferred_to(engines[C])
                    y = y.transferred_to(x.engine)
                except R.RelationalAlgebraError as exc:
                    if "will not preserve row order" in str(exc):
                        continue
                    out["violations"].append({"kind": "round_trip_raised", "detail": f"{what} via {B},{C}: {exc_str(exc)}"})
                    continue
                except Exception as exc:  # noqa: BLE001
                    out["violations"].append({"kind": "round_trip_raised", "detail": f"{what} via {B},{C}: {exc_str(exc)}"})
                    continue
                c["round_trips_checked"] = c.get("round_trips_checked", 0) + 1
                if y.engine is not x.engine:
                    out["violations"].append({"kind": "round_trip_wrong_engine", "detail": f"{what} via {B},{C}: {y.engine}"})
                if set(y.columns) != set(x.columns):
                    out["violations"].append({"kind": "round_trip_columns_differ", "detail": f"{what} via {B},{C}"})
                locked([x], y, f"{what} round trip via {B},{C}")
                have = {id(n) for n in interp.walk(y)}
                for nodes in structure.locked_nodes(x).values():
                    for n in nodes:
                        if id(n) not in have:
                            out["violations"].append({"kind": "round_trip_dropped_locked_node", "detail": f"{what} via {B},{C}: {type(n).__name__} {short(n, 120)} is no longer part of {short(y, 200)}"})
                for kind, detail in structure.check_c14(y):
                    out["violations"].append({"kind": kind, "detail": f"{what} round trip via {B},{C}: {detail}"})
                out["sigs"].append(f"trip:{x.engine}>{B}>{C}:{'same' if y is x else 'new'}:{tail}")
            core = x
            from lsst.daf.relation import sql as _sql
            while isinstance(core, _sql.Select) and core.target is core.skip_to:
                core = core.target  # Select markers that apply no operation
            if isinstance(core, (R.LeafRelation, R.Materialization)):
                # materializing a leaf / an already materialized relation - once, twice, three times -
                # must never add a Materialization node
                before = lib_census(x).get("Materialization", 0)
                cur = x
                for rep in range(3):
                    try:
                        cur = cur.materialized(name=f"again{rep}")
                    except Exception as exc:  # noqa: BLE001
                        out["violations"].append({"kind": "materialized_raised", "detail": f"{what}: {exc_str(exc)}"})
                        break
                    c["materialize_simplifications_checked"] = c.get("materialize_simplifications_checked", 0) + 1
                    if lib_census(cur).get("Materialization", 0) > before:
                        out["violations"].append({"kind": "materialization_of_locked_relation_added_node", "detail": f"{what}: materialized() call #{rep + 1} returned {short(cur)}"})
                        break
                    locked([x], cur, f"{what}.materialized() x{rep + 1}")
        # ---- reapply() with an equal-but-distinct target: the same program built a second time
        # from the same leaf specifications gives relations that compare equal to the first build
        # but are different objects (own leaves, own materializations); re-applying a node of the
        # first build to the twin's operand(s) has to produce a tree over the TWIN's locked nodes
        try:
            b2 = Builder(case["leaves"], engines, db)
            b2.build(case["prog"])
        except BuildFailure:
            b2 = None
        if b2 is not None and len(b2.nodes) == len(b.nodes):
            for (sub, x), (_, t) in list(zip(b.nodes, b2.nodes))[-12:]:
                what = model.show(sub) + " reapplied to its twin's operand"
                try:
                    if isinstance(x, R.UnaryOperationRelation) and isinstance(t, R.UnaryOperationRelation):
                        inputs2, r = [t.target], x.reapply(t.target)
                    elif isinstance(x, R.BinaryOperationRelation) and isinstance(t, R.BinaryOperationRelation):
                        inputs2, r = [t.lhs, t.rhs], x.reapply(t.lhs, t.rhs)
                    elif isinstance(x, R.MarkerRelation) and isinstance(t, R.MarkerRelation) and type(x) is type(t):
                        inputs2, r = [t.target], x.reapply(t.target)
                    else:
                        continue
                except R.RelationalAlgebraError:
                    continue
                except Exception as exc:  # noqa: BLE001
                    out["violations"].append({"kind": "reapply_raised", "detail": f"{what}: {exc_str(exc)}"})
                    continue
                c["reapply_checked"] = c.get("reapply_checked", 0) + 1
                locked(inputs2, r, what)
                if r != t and not isinstance(x, R.MarkerRelation):
                    # same operation on an equal operand: an equal relation
                    out["violations"].append({"kind": "reapply_result_not_equal_to_twin", "detail": f"{what}: {short(r, 200)} vs {short(t, 200)}"})
        # ---- markers re-applied to a bare operand: Select.target / skip_to are public attributes, and
        # marker.reapply(target) is the public way to rebuild a marker over another operand (the
        # Processor does it); the resulting Materialization / Transfer-with-payload is a locked node
        # whose operand is NOT Select-rooted.  Tree-building calls on it must keep it as it is.
        from lsst.daf.relation import sql as _sql2

        nbare = 0
        for sub, x in b.nodes:
            if nbare >= 3 or not isinstance(x.engine, _sql2.Engine):
                continue
            mat = next((n for n in interp.walk(x) if isinstance(n, R.Materialization) and isinstance(n.engine, _sql2.Engine)), None)
            if mat is None:
                continue
            core = mat.target
            while isinstance(core, _sql2.Select):
                core = core.skip_to if core.skip_to is not core.target and not isinstance(core.skip_to, _sql2.Select) else core.target
            if isinstance(core, (R.MarkerRelation, R.LeafRelation)):
                continue
            try:
                mb = mat.reapply(core)
            except R.RelationalAlgebraError:
                continue
            except Exception as exc:  # noqa: BLE001
                out["violations"].append({"kind": "reapply_raised", "detail": f"{model.show(sub)}: materialization re-applied to {short(core, 120)}: {exc_str(exc)}"})
                continue
            if mb is mat or not isinstance(mb, R.Materialization):
                continue
            nbare += 1
            calls = [("without_duplicates()", lambda r: r.without_duplicates()), ("[0:3]", lambda r: r[0:3]),
                     ("conform", lambda r: r.engine.conform(r)), ("materialized(again)", lambda r: r.materialized(name="again_bare"))]
            if mb.columns:
                t0 = sorted(mb.columns, key=str)[0]
                calls.append(("with_rows_satisfying", lambda r, t0=t0: r.with_rows_satisfying(R.ColumnExpression.reference(t0).ge(R.ColumnExpression.literal(0)))))
                calls.append(("with_only_columns", lambda r, t0=t0: r.with_only_columns({t0})))
            for cname, call in calls:
                try:
                    res = call(mb)
                except R.RelationalAlgebraError:
                    continue
                except Exception as exc:  # noqa: BLE001
                    out["violations"].append({"kind": "call_on_bare_materialization_raised", "detail": f"{model.show(sub)}: {cname} on {short(mb, 160)}: {exc_str(exc)}"})
                    continue
                c["calls_on_bare_markers_checked"] = c.get("calls_on_bare_markers_checked", 0) + 1
                if not any(n is mb for n in interp.walk(res)):
                    out["violations"].append({"kind": "locked_node_rewritten", "detail": f"{model.show(sub)}: {cname} on a materialization re-applied to a bare operand returned {short(res, 300)}, which no longer contains that node (payload-carrying nodes must never be copied)"})
        # ---- Processor.process: a materialization with nothing to rewrite upstream (no transfer below
        # it) is a locked node that the returned tree must contain as the identical object
        try:
            def rewritten_by_processor(k):
                # transfers are re-applied with their payload; chains lose statically empty operands
                return isinstance(k, R.Transfer) or (isinstance(k, R.BinaryOperationRelation) and isinstance(k.operation, R.Chain) and (k.lhs.max_rows == 0 or k.rhs.max_rows == 0))

            mats_before = [n for n in interp.walk(base) if isinstance(n, R.Materialization) and not any(rewritten_by_processor(k) for k in interp.walk(n.target))]
            if mats_before:
                from ..dbx import VProcessor

                processed = VProcessor(db).process(base)
                by_name = {}
                for n in interp.walk(processed):
                    if isinstance(n, R.Materialization):
                        by_name.setdefault(n.name, []).append(n)
                for m0 in mats_before:
                    c["materializations_followed_through_process"] = c.get("materializations_followed_through_process", 0) + 1
                    same_name = by_name.get(m0.name, [])
                    if same_name and not any(x is m0 for x in same_name):
                        out["violations"].append({"kind": "processor_replaced_locked_materialization", "detail": f"{model.show(case['prog'])}: {short(m0, 160)} has no transfer upstream, yet the processed tree holds an equal but distinct object in its place"})
        except R.RelationalAlgebraError:
            pass
        except Exception as exc:  # noqa: BLE001
            if "Joins are not supported" not in str(exc):
                c["process_failed_counted_only"] = c.get("process_failed_counted_only", 0) + 1
        # ---- content of root round trips
        m = model.Model(case["leaves"], sql_slices=True, key_dedup=True, strict_fragile=True, ordered_engines=("it", "it2"))
        try:
            want = m.eval(case["prog"])
            for B, C in ((case["trip"][0], None), (case["trip"][0], case["trip"][1])):
                try:
                    y = base.transferred_to(engines[B])
                    if C is not None:
                        y = y.transferred_to(engines[C])
                    y = y.transferred_to(base.engine)
                except R.RelationalAlgebraError:
                    continue
                try:
                    rows, _, _ = multi.evaluate(y, db)
                except Exception as exc:  # noqa: BLE001
                    if "Joins are not supported by the iteration engine" in str(exc) or multi.prune_order_loss(y, exc):
                        continue
                    out["violations"].append({"kind": "round_trip_not_evaluable", "detail": f"{model.show(case['prog'])} via {B},{C}: {exc_str(exc)} tree {short(y, 300)}"})
                    continue
                c["round_trip_rows_compared"] = c.get("round_trip_rows_compared", 0) + 1
                if model.canon(rows) != model.canon(want.rows):
                    out["violations"].append({"kind": "round_trip_changed_content", "detail": f"{model.show(case['prog'])} via {B},{C}: tree {short(y, 300)} got {short(model.canon(rows), 250)} want {short(model.canon(want.rows), 250)}"})
        except model.Skip:
            c["content_skipped_precondition"] = 1
        # ---- every factory call with every option: locked nodes stay identical
        label = model.show(c03.final_prog(case, None))
        if f["kind"] == "join":
            combos = [None] + [{"pe": f["fixed_engine"], "bt": bt, "tr": tr, "rq": False} for bt in (True, False) for tr in (False, True)]
        else:
            combos = [None] + [{"pe": pe, "bt": bt, "tr": tr, "rq": rq} for pe, bt, tr, rq in itertools.product(c03.ENG, (True, False), (False, True), (False, True))]
        inputs = [base] + ([fixed] if fixed is not None else [])
        n_locked = sum(len(v) for v in structure.locked_nodes(base).values())
        for opt in combos:
            try:
                res = c03.apply_final(case, base, b, engines, opt)
            except R.RelationalAlgebraError:
                continue
            except Exception as exc:  # noqa: BLE001
                out["violations"].append({"kind": "undocumented_exception", "detail": f"{label} with {opt}: {exc_str(exc)}"})
                continue
            locked(inputs, res, f"{label} with {opt}")
            if opt and opt["pe"] != case["engine"]:
                out["sigs"].append(f"req:{f['kind']}:{opt['pe']}{int(opt['bt'])}{int(opt['tr'])}{int(opt['rq'])}:{n_locked}:{tail}")
        out["evaluations"] = len(combos) + 2 * len(b.nodes)
        if out["sigs"]:
            out["sample"] = {"base": model.show(case["prog"]), "base_tree": short(base, 200), "trip": case["trip"], "locked_nodes_in_base": n_locked}
        return out
    finally:
        db.close()
