"""C12 - column expressions mean the same thing in every engine."""
from __future__ import annotations

import random

import itertools

from .. import exprs, interp
from ..common import exc_str, short
from ..dbx import DB
from ..tags import T

ID = "C12"
LEVEL = "translation_validation"
TECHNIQUE = "runtime monitoring (translation validation): four-way evaluation of expressions on a full integer grid; exhaustive range grid"
RULE = (
    "seeded random expression / predicate trees over the portable operator set (references, integer literals, "
    "negation, + - *, six comparisons, AND/OR/NOT of arity 0-3 built by factory and by constructor, membership in "
    "integer ranges and in sequences of 0-3 expressions), depth <= 3 (quick) / 4 (thorough), over <= 3 columns; each "
    "is evaluated on the full grid [-3,3]^k by (1) iteration.Engine.convert_*, (2) sql.Engine.convert_* inside a "
    "SELECT run by SQLite and through the public with_rows_satisfying / with_calculated_column path, (3) direct "
    "evaluation of the AST and (4) an independent interpreter of the library objects; all must agree on every row.  "
    "Worker 0 additionally enumerates every range(start, stop, step) with start, stop in [-6,7], step in "
    "+-{1,2,3,5} against 25 probe values (exhaustive).  Non-trivial = depth >= 2 or a container; distinct = distinct "
    "operator-shape strings."
    "  Range literals are built through the factory and through the public dataclass constructor (both routes in "
    "the exhaustive grid).  Predicates are also converted through sql.Engine.convert_flattened_predicate (the list of "
    "terms the engine itself puts into WHERE / ON clauses); the AND of the terms must agree as well.  Worker 0 also runs scale probes: AND / OR of 501, 700 and 900 comparisons (SQLite refuses expression trees deeper than 1000) and "
    "membership in sequences of 1001, 2047 and 3001 literals (the deciding operand / item is among the last ones). "
)
ASSUMPTIONS = [
    "SQLite 3 integer semantics stand in for 'a database' (64-bit integers; % is a remainder)",
    "direct evaluation vmon/exprs.py and vmon/interp.py are the reference; a split in which both engines agree "
    "against the two references is reported as ORACLE-SUSPECT (inconclusive), not as a violation",
    "NULL-free integer rows only",
]
MIN_OBS = {"programs_compared": 300, "with_range": 30, "with_sequence": 30, "with_logical": 50}
CASE_TIMEOUT = 60

_state: dict = {}
GRID = list(range(-3, 4))
COLS = ["a", "b", "c"]


def setup(tier):
    import sqlalchemy

    from lsst.daf.relation import iteration, sql

    db = DB(shim=True)
    tables = {}
    for k in range(4):
        tags = [T(c) for c in COLS[:k]]
        rows = [dict(zip(tags, vals)) for vals in itertools.product(GRID, repeat=k)]
        tables[k] = (tags, rows, db.make_table(f"grid{k}", tags, rows))
    probe_tag = T("a")
    probes = [{probe_tag: v} for v in range(-12, 13)]
    tables["probe"] = ([probe_tag], probes, db.make_table("probe", [probe_tag], probes))
    _state.update(db=db, tables=tables, sql=sql.Engine(name="sql"), it=iteration.Engine(name="it"), sa=sqlalchemy)


def budget(tier):
    if tier == "quick":
        return {"cases": 30000, "workers": 8, "watchdog_s": 1800}
    return {"cases": 1200000, "workers": 16, "watchdog_s": 3600, "budget_s": 600}


def shape(node) -> str:
    if not isinstance(node, list):
        return ""
    k = node[0]
    if k in ("ref", "lit"):
        return k[0]
    if k == "plit":
        return "T" if node[1] else "F"
    if k == "cmp":
        return f"{node[1]}({shape(node[2])},{shape(node[3])})"
    if k in ("and", "or"):
        return f"{k}{node[2][0] if len(node) > 2 else ''}[{','.join(shape(x) for x in node[1])}]"
    if k == "inrange":
        s = node[2][2]
        return f"rng{'-' if s < 0 else ''}{min(abs(s), 2)}({shape(node[1])})"
    if k == "inseq":
        return f"seq{len(node[2])}({shape(node[1])})"
    return f"{k}({','.join(shape(x) for x in node[1:] if isinstance(x, list))})"


def depth(node) -> int:
    if not isinstance(node, list) or not node:
        return 0
    subs = [depth(x) for x in node if isinstance(x, list)]
    return (1 if isinstance(node[0], str) else 0) + (max(subs) if subs else 0)


def gen_case(rng, tier):
    d = rng.choice([1, 2, 3]) if tier == "quick" else rng.choice([2, 3, 4])
    k = rng.choice([1, 2, 2, 3])
    cols = COLS[:k]
    if rng.random() < 0.12:
        # several membership tests in one statement (literal and mixed sequences, ranges)
        tests = []
        for _ in range(rng.randint(2, 3)):
            c = rng.choice(cols)
            if rng.random() < 0.7:
                tests.append(["inseq", ["ref", c], [["lit", rng.randint(-3, 3)] for _ in range(rng.randint(1, 3))], rng.choice(["list", "tuple"])])
            else:
                tests.append(["inrange", ["ref", c], exprs.gen_range(rng, True), rng.choice(["factory", "ctor"])])
        if rng.random() < 0.4:
            tests[-1] = ["not", tests[-1]]
        return {"kind": "pred", "ast": [rng.choice(["and", "or"]), tests, rng.choice(["ctor", "factory"])], "k": k}
    if rng.random() < 0.3:
        return {"kind": "expr", "ast": exprs.gen_e(rng, cols, d), "k": k}
    return {"kind": "pred", "ast": exprs.gen_p(rng, cols, d, wild_ranges=rng.random() < 0.7), "k": k}


def c_rem(a, b):
    """C / SQL remainder (sign follows the dividend)."""
    r = abs(a) % abs(b)
    return -r if a < 0 else r


def pv_sqlrem(p, row) -> bool:
    """The documented SQL text for range membership ('x BETWEEN start AND stop-1 AND x % step = start % step'),
    evaluated with a C remainder - used only to attribute a disagreement to the pinned known finding."""
    k = p[0]
    if k == "inrange":
        v = exprs.ev(p[1], row)
        r = range(*p[2])
        if r.step < 0:
            r = r[::-1]
        start, stop, step = r.start, r.stop, r.step
        if start == stop - 1:
            return v == start
        ok = start <= v <= stop - 1
        if step != 1:
            ok = ok and c_rem(v, step) == start % step
        return ok
    if k == "and":
        return all(pv_sqlrem(q, row) for q in p[1])
    if k == "or":
        return any(pv_sqlrem(q, row) for q in p[1])
    if k == "not":
        return not pv_sqlrem(p[1], row)
    return exprs.pv(p, row)


def has_negative_member_range(p) -> bool:
    if not isinstance(p, list):
        return False
    if p and p[0] == "inrange":
        r = range(*p[2])
        if r.step < 0:
            r = r[::-1]
        if len(r) and abs(r.step) > 1 and r.start < 0 and r.start % r.step != 0:
            return True
    return any(has_negative_member_range(x) for x in p if isinstance(x, list))


def evaluate_all(kind, ast, tags, rows, table_payload):
    """Returns dict source -> list of values (one per row)."""
    sa = _state["sa"]
    db, sqle, ite = _state["db"], _state["sql"], _state["it"]
    named_rows = [{t.qualified_name: v for t, v in r.items()} for r in rows]
    res = {}
    if kind == "expr":
        lib = exprs.elib(ast)
        res["ast"] = [exprs.ev(ast, r) for r in named_rows]
        res["interp"] = [interp.eval_expr(lib, r) for r in rows]
        f = ite.convert_column_expression(lib)
        res["iteration"] = [f(r) for r in rows]
        col = sqle.convert_column_expression(lib, table_payload.columns_available)
    else:
        lib = exprs.plib(ast)
        res["ast"] = [bool(exprs.pv(ast, r)) for r in named_rows]
        res["interp"] = [bool(interp.eval_pred(lib, r)) for r in rows]
        f = ite.convert_predicate(lib)
        res["iteration"] = [bool(f(r)) for r in rows]
        col = sqle.convert_predicate(lib, table_payload.columns_available)
        # the other public conversion route (what the engine itself uses for WHERE / ON clauses):
        # a list of terms to be combined with AND
        terms = sqle.convert_flattened_predicate(lib, table_payload.columns_available)
        flat_col = sa.and_(sa.true(), *terms)
        fsel = sa.select(*[table_payload.columns_available[t].label(t.qualified_name) for t in tags], flat_col.label("v__")).select_from(table_payload.from_clause)
        fgot = {}
        for r in db.conn.execute(fsel).mappings():
            fgot[tuple(r[t.qualified_name] for t in tags)] = r["v__"]
        res["sql_flattened"] = [bool(fgot[tuple(r[t] for t in tags)]) for r in rows]
    sel = sa.select(*[table_payload.columns_available[t].label(t.qualified_name) for t in tags], col.label("v__")).select_from(table_payload.from_clause)
    got = {}
    for r in db.conn.execute(sel).mappings():
        got[tuple(r[t.qualified_name] for t in tags)] = r["v__"]
    vals = [got[tuple(r[t] for t in tags)] for r in rows]
    res["sql"] = [bool(v) for v in vals] if kind == "pred" else vals
    return res, lib


def compare(kind, ast, tags, rows, payload, out, label):
    try:
        res, lib = evaluate_all(kind, ast, tags, rows, payload)
    except Exception as exc:  # noqa: BLE001
        out["violations"].append({"kind": "evaluation_raised", "detail": f"{exc_str(exc)} for {label}"})
        return None
    out["counters"]["programs_compared"] = out["counters"].get("programs_compared", 0) + 1
    if res["ast"] != res["interp"]:
        out["violations"].append({"kind": "ORACLE-SUSPECT", "detail": f"references disagree for {label}"})
        return res
    bad = [s for s in ("iteration", "sql", "sql_flattened") if s in res and res[s] != res["ast"]]
    if bad:
        out["counters"]["disagreements_checked"] = out["counters"].get("disagreements_checked", 0) + 1
        i = next(i for i in range(len(rows)) if any(res[s][i] != res["ast"][i] for s in bad))
        mech = None
        if kind == "pred" and bad == ["sql"] and has_negative_member_range(ast):
            named = [{t.qualified_name: v for t, v in r.items()} for r in rows]
            if res["sql"] == [bool(pv_sqlrem(ast, r)) for r in named]:
                mech = "KF-range-negative-members"
        out["violations"].append({
            "kind": f"engines_disagree:{'+'.join(bad)}",
            "mech": mech,
            "detail": f"{label}: at row {rows[i]} direct={res['ast'][i]} iteration={res['iteration'][i]} sql={res['sql'][i]} sql_flattened={res.get('sql_flattened', [None] * len(rows))[i]} ({sum(1 for j in range(len(rows)) if any(res[s][j] != res['ast'][j] for s in bad))} of {len(rows)} rows differ)",
        })
    return res


def public_path(kind, ast, tags, rows, payload, out, label, expected):
    """Same expression through the public relation API in both engines."""
    from lsst.daf.relation import iteration

    sqle, ite, db = _state["sql"], _state["it"], _state["db"]
    try:
        sleaf = sqle.make_leaf(set(tags), payload, name="grid", min_rows=len(rows), max_rows=len(rows))
        ileaf = ite.make_leaf(set(tags), iteration.RowSequence(rows), name="grid")
        if kind == "pred":
            lib = exprs.plib(ast)
            srel, irel = sleaf.with_rows_satisfying(lib), ileaf.with_rows_satisfying(lib)
            want = sorted(tuple(r[t] for t in tags) for r, keep in zip(rows, expected) if keep)
            s_got = sorted(tuple(r[t] for t in tags) for r in db.run(srel))
            i_got = sorted(tuple(r[t] for t in tags) for r in ite.execute(irel))
        else:
            if not exprs.ecols(ast):
                return
            lib = exprs.elib(ast)
            g = T("g")
            srel, irel = sleaf.with_calculated_column(g, lib), ileaf.with_calculated_column(g, lib)
            want = sorted(tuple(r[t] for t in tags) + (v,) for r, v in zip(rows, expected))
            s_got = sorted(tuple(r[t] for t in tags) + (r[g],) for r in db.run(srel))
            i_got = sorted(tuple(r[t] for t in tags) + (r[g],) for r in ite.execute(irel))
    except Exception as exc:  # noqa: BLE001
        out["violations"].append({"kind": "public_path_raised", "detail": f"{exc_str(exc)} for {label}"})
        return
    out["counters"]["public_path_compared"] = 1
    if s_got != want or i_got != want:
        mech = None
        if kind == "pred" and i_got == want and has_negative_member_range(ast):
            named = [{t.qualified_name: v for t, v in r.items()} for r in rows]
            alt = sorted(tuple(r[t] for t in tags) for r, n in zip(rows, named) if pv_sqlrem(ast, n))
            if s_got == alt:
                mech = "KF-range-negative-members"
        out["violations"].append({
            "kind": "public_path_disagrees",
            "mech": mech,
            "detail": f"{label}: sql_ok={s_got == want} iteration_ok={i_got == want}",
        })


def run_case(case):
    out = {"counters": {}, "violations": []}
    kind, ast, k = case["kind"], case["ast"], case["k"]
    tags, rows, payload = _state["tables"]["probe" if case.get("probe") else k]
    label = exprs.show_e(ast) if kind == "expr" else exprs.show_p(ast)
    res = compare(kind, ast, tags, rows, payload, out, label)
    if res is not None and not out["violations"]:
        public_path(kind, ast, tags, rows, payload, out, label, res["ast"])
    s = shape(ast)
    if "rng" in s:
        out["counters"]["with_range"] = 1
    if "seq" in s:
        out["counters"]["with_sequence"] = 1
    if "and" in s or "or" in s or "not" in s:
        out["counters"]["with_logical"] = 1
    if depth(ast) >= 2 or "rng" in s or "seq" in s:
        out["sig"] = s
        out["sample"] = {"kind": kind, "expression": label, "rows_evaluated": len(rows)}
    return out


def run_shard(seed, wid, nworkers, tier):
    """Worker 0: exhaustive range grid."""
    out = {"counters": {}, "violations": [], "evaluations": 0, "sigs": [], "extra": {}}
    if wid != 0:
        return out
    tags, rows, payload = _state["tables"]["probe"]
    n = 0
    for start in range(-6, 8):
        for stop in range(-6, 8):
            for step in (-5, -3, -2, -1, 1, 2, 3, 5):
                # both public construction routes: the factory and the dataclass constructor
                for route in ("factory", "ctor"):
                    ast = ["inrange", ["ref", "a"], [start, stop, step], route]
                    sub = {"counters": {}, "violations": []}
                    compare("pred", ast, tags, rows, payload, sub, exprs.show_p(ast))
                    n += 1
                    for key, v in sub["counters"].items():
                        out["counters"][key] = out["counters"].get(key, 0) + v
                    out["violations"].extend(dict(v, case={"kind": "pred", "ast": ast, "k": 1, "probe": True}) for v in sub["violations"])
                out["sigs"].append(f"range:{'neg' if step < 0 else 'pos'}:{abs(step)}:{'empty' if len(range(start, stop, step)) == 0 else 'nonempty'}:{'negstart' if start < 0 else 'posstart'}")
    # ---- scale probes: predicates far larger than anything the random generator builds (code that
    # batches or nests long operand / item lists never shows on three operands)
    rr = random.Random(f"{seed}:scale")
    for size in (501, 700, 900):  # SQLite refuses expression trees deeper than 1000
        for k in ("or", "and"):
            # all operands but the last three compare with values outside the probe rows, so the
            # result is decided by the last ones alone
            cmp_ = "ne" if k == "and" else "eq"
            ops = [["cmp", cmp_, ["ref", "a"], ["lit", 1000 + i]] for i in range(size - 3)]
            ops += [["cmp", cmp_, ["ref", "a"], ["lit", rr.randint(-12, 12)]] for _ in range(3)]
            ast = [k, ops, rr.choice(["ctor", "factory"])]
            sub = {"counters": {}, "violations": []}
            compare("pred", ast, tags, rows, payload, sub, f"{k} of {size} comparisons")
            out["counters"]["scale_probes"] = out["counters"].get("scale_probes", 0) + 1
            out["violations"].extend(dict(v, case={"kind": "pred", "ast": ast, "k": 1, "probe": True}) for v in sub["violations"])
    for size in (1001, 2047, 3001):
        items = [["lit", 1000 + i] for i in range(size - 3)] + [["lit", rr.randint(-12, 12)] for _ in range(3)]  # the last items matter
        ast = ["inseq", ["ref", "a"], items, rr.choice(["list", "tuple"])]
        sub = {"counters": {}, "violations": []}
        compare("pred", ast, tags, rows, payload, sub, f"membership in a sequence of {size} literals")
        out["counters"]["scale_probes"] = out["counters"].get("scale_probes", 0) + 1
        out["violations"].extend(dict(v, case={"kind": "pred", "ast": ast, "k": 1, "probe": True}) for v in sub["violations"])
    out["evaluations"] = n
    out["counters"]["range_grid_enumerated"] = n
    out["extra"] = {"range_grid_exhaustive": True, "range_grid_size": n, "range_probe_values": len(rows)}
    out["sample"] = {"kind": "range grid", "ranges": n, "probe_values": [-12, 12]}
    return out


def teardown():
    if "db" in _state:
        _state["db"].close()
    return {}
