"""C02 - SQL compilation preserves relational semantics (translation validation)."""
from __future__ import annotations

from .. import gen, model
from ..common import exc_str, names_rows, rewrite_counters, short
from ..dbx import DB, BuildFailure, Builder, make_engines

ID = "C02"
LEVEL = "translation_validation"
TECHNIQUE = "runtime monitoring (translation validation): compiled SQL executed on SQLite vs reference model, both scan orders"
RULE = (
    "seeded random programs of factory calls inside one sql.Engine (calculation, projection, selection, "
    "deduplication, sort, slice, join with/without predicate, chain, nested and shared operands, hidden-column "
    "collisions, non-key columns, provenance-tagged values); each is compiled with Engine.to_executable, run on an "
    "in-memory SQLite holding the leaf tables (both PRAGMA reverse_unordered_selects settings, shuffled insertion "
    "order) and its multiset of rows compared with the reference model evaluated on the call sequence.  "
    "Non-trivial = >= 2 operations; distinct = operation-type skeleton x rewrite kinds (merge / elision / nested "
    "sub-query)."
)
ASSUMPTIONS = [
    "reference model vmon/model.py; SQLite 3 + SQLAlchemy as executor",
    "grammar shim: a compound-select operand of a compound select is rendered as SELECT * FROM (...) because SQLite "
    "rejects the parenthesised form SQLAlchemy emits (PostgreSQL accepts it); C08 runs without the shim",
    "a slice whose input order is not determined by a total sort is legitimately non-deterministic in SQL: such "
    "cases are kept only if the window is order-independent, otherwise discarded and counted",
    "programs the engine refuses with the documented row-order-loss error are legitimate rejections (counted)",
]
MIN_OBS = {"programs_compared": 200, "nested_select": 20, "elided_or_merged_Projection": 10, "with_join": 20, "with_chain": 20}
CASE_TIMEOUT = 25


def budget(tier):
    if tier == "quick":
        return {"cases": 40000, "workers": 8, "watchdog_s": 1800}
    return {"cases": 1600000, "workers": 16, "watchdog_s": 3600, "budget_s": 600}


def gen_case(rng, tier):
    cfg = gen.Cfg(
        engines=("sql",),
        ops=("calc", "proj", "sel", "dedup", "sort", "slice", "chain", "join"),
        weights={"join": 1.5, "chain": 1.2, "proj": 1.3},
        max_depth=2 if tier == "quick" or rng.random() < 0.5 else 3,
        provenance=rng.random() < 0.33,
        raw_leaves=False,
        sort_then_slice_prob=0.5,
    )
    g = gen.Gen(rng, cfg)
    if rng.random() < 0.08:
        state = gen.hidden_collision_join(g, rng, "sql")
        if state is not None:
            for _ in range(rng.randint(0, 2)):
                state = g.unary(state, g.pick_op(("calc", "proj", "sel", "dedup", "sort", "slice"))) or state
            return gen.case_from(g, state)
    return gen.case_from(g, g.tree())


def is_order_refusal(exc) -> bool:
    import lsst.daf.relation as R

    return isinstance(exc, R.RelationalAlgebraError) and "will not preserve row order" in str(exc)


def run_case(case):
    out = {"counters": {}, "violations": []}
    prog = case["prog"]
    m = model.Model(case["leaves"], sql_slices=True, strict_fragile=True)
    try:
        want = m.eval(prog)
    except model.Skip as s:
        out["skip"] = s.reason
        return out
    db = DB(shim=True)
    try:
        engines = make_engines(("sql",))
        b = Builder(case["leaves"], engines, db)
        try:
            rel = b.build(prog)
        except BuildFailure as f:
            if is_order_refusal(f.exc):
                out["skip"] = "refused_order_loss"
                return out
            out["violations"].append({"kind": "rejected_valid_program", "detail": f"{exc_str(f.exc)} at {model.show(f.prog)}"})
            return out
        try:
            ex = engines["sql"].to_executable(rel)
        except Exception as exc:  # noqa: BLE001
            out["violations"].append({"kind": "compile_raised", "detail": f"{exc_str(exc)} for {model.show(prog)} tree {short(rel)}"})
            return out
        rw = rewrite_counters(prog, rel)
        out["counters"].update(rw)
        sig_prog = gen.op_signature(prog)
        if "J" in sig_prog:
            out["counters"]["with_join"] = 1
        if "U" in sig_prog:
            out["counters"]["with_chain"] = 1
        for reverse in (False, True):
            db.conn.exec_driver_sql(f"PRAGMA reverse_unordered_selects={int(reverse)}")
            try:
                got = names_rows(db.fetch(ex, rel.columns, rel.engine))
            except Exception as exc:  # noqa: BLE001
                out["violations"].append({"kind": "database_rejected", "detail": f"{exc_str(exc)} for {model.show(prog)} sql {short(db.text(ex), 500)}"})
                return out
            out["counters"]["programs_compared"] = out["counters"].get("programs_compared", 0) + 1
            if {t.qualified_name for t in rel.columns} != set(want.cols):
                out["violations"].append({"kind": "columns_differ", "detail": f"{model.show(prog)}: {sorted(map(str, rel.columns))} vs {sorted(want.cols)}"})
                break
            if model.canon(got) != model.canon(want.rows):
                out["counters"]["disagreements_checked"] = 1
                out["violations"].append({
                    "kind": "rows_differ",
                    "detail": f"program {model.show(prog)} sql {short(db.text(ex), 600)} got {short(model.canon(got), 300)} want {short(model.canon(want.rows), 300)} (reverse_unordered_selects={int(reverse)})",
                })
                break
        nops = sum(1 for s in model.subprograms(prog) if s[0] != "leaf")
        if nops >= 2:
            out["sig"] = sig_prog + "|" + ",".join(sorted(rw))
            out["sample"] = {"program": model.show(prog), "sql": short(db.text(ex), 400), "rows": len(want.rows), "rewrites": sorted(rw)}
        return out
    finally:
        db.close()
