"""C06 - static metadata (columns, row bounds, triviality flags) is truthful."""
from __future__ import annotations

from .. import bootstrap, gen, interp, model
from ..common import exc_str, names_rows, short
from ..dbx import DB, BuildFailure, Builder, make_engines
from lsst.daf.relation import sql as Rsql  # noqa: E402

bootstrap.ensure()

ID = "C06"
LEVEL = "exploration"
TECHNIQUE = "runtime monitoring: every tree node executed and compared with its declared columns / bounds / flags"
RULE = (
    "seeded random programs in the iteration engine (with iteration->iteration transfers and materializations) and "
    "in the SQL engine (joins, chains, nested selects), over leaves whose declared bounds are truthful but drawn from "
    "{exact, loose, 0/None}, weighted towards zero-column relations, deduplications of them, doomed and "
    "join-identity leaves, out-of-range slices; EVERY node of the library tree (not just the root) is executed by "
    "its engine and checked: each row's key set == node.columns, min_rows <= count <= max_rows, is_join_identity "
    "only for exactly one zero-column row, max_rows == 0 only for no rows; the sub-program results are also compared "
    "with the reference model so the consumers of these flags (join elision, empty short-circuit) are exercised.  "
    "Non-trivial = tree has >= 3 nodes; distinct = program skeleton x engine x set of bound shapes seen."
    "  Every tree is also evaluated through Processor.process (a consumer of the flags: it prunes chain operands it "
    "takes for empty and never evaluates statically trivial transfers) and compared with the model; unions of "
    "zero-column relations with a join-identity operand are generated on purpose; in SQL programs every node that "
    "holds a cached payload after processing is executed, a selection and a calculation built on it are executed, "
    "and it is executed again - bounds and rows must not have changed. "
    "  In the iteration engine up to three operation nodes per case are replayed with reapply() on a different operand (their target extended by a calculated column): the result's declared columns and bounds must describe what it yields and its rows must be the model's. "
)
ASSUMPTIONS = [
    "leaf declarations are truthful by construction of the generator (min <= actual <= max)",
    "row counts come from executing the real engines (SQLite for SQL); content is cross-checked with vmon/model.py",
]
MIN_OBS = {"processed_compared": 300, "nodes_checked": 3000, "nodes_zero_columns": 100, "nodes_max_rows_zero": 50, "nodes_join_identity": 20, "nodes_unbounded": 50}
CASE_TIMEOUT = 60


def budget(tier):
    if tier == "quick":
        return {"cases": 30000, "workers": 8, "watchdog_s": 1800}
    return {"cases": 1200000, "workers": 16, "watchdog_s": 3600, "budget_s": 600}


def gen_case(rng, tier):
    engine = rng.choice(["it", "sql"])
    if engine == "it":
        cfg = gen.Cfg(engines=("it", "it2"), ops=("calc", "proj", "sel", "dedup", "sort", "slice", "chain", "mat"), xfer_prob=0.06,
                      weights={"proj": 1.6, "dedup": 1.5, "slice": 1.5, "chain": 1.3}, total_sort_prob=0.4,
                      max_depth=2 if tier == "quick" or rng.random() < 0.6 else 3, leaf_cols=rng.choice(["abcd", "ab", "a"]))
    else:
        cfg = gen.Cfg(engines=("sql",), ops=("calc", "proj", "sel", "dedup", "sort", "slice", "chain", "join", "mat"), raw_leaves=False,
                      weights={"proj": 1.6, "dedup": 1.5, "slice": 1.5, "join": 1.5, "chain": 1.3, "mat": 0.5}, sort_then_slice_prob=0.6,
                      max_depth=2 if tier == "quick" or rng.random() < 0.6 else 3, leaf_cols=rng.choice(["abcd", "ab", "a"]))
    g = gen.Gen(rng, cfg)
    state = g.tree()
    if rng.random() < 0.1:
        # equal-named leaves with different content and bounds (relations that compare equal)
        state = gen.chain_with_name_twin(g, state, rng) or state
    if rng.random() < 0.1:
        # unions of zero-column relations, one operand being a (static) join identity: the
        # short-cuts keyed on is_join_identity / is_trivial / max_rows == 0 meet each other
        prog, cols, eng = state
        if cols:
            state = (["proj", prog, [], None], frozenset(), eng)
        ident = f"LI{len(g.leaves) + 1}"
        g.leaves[ident] = {"engine": state[2], "cols": [], "rows": [[]], "kind": "identity"}
        other = rng.choice([["leaf", ident], ["leaf", ident], ["dedup", state[0], None], ["slice", state[0], 0, 1]])
        state = ((["chain", state[0], other] if rng.random() < 0.5 else ["chain", other, state[0]]), frozenset(), state[2])
        for _ in range(rng.randint(0, 2)):
            state = g.unary(state, rng.choice(["dedup", "slice", "sel", "mat"] if engine == "it" else ["dedup", "slice", "sel"])) or state
    case = gen.case_from(g, state)
    case["engine"] = engine
    return case


def check_node(node, rows, out, label):
    c = out["counters"]
    c["nodes_checked"] = c.get("nodes_checked", 0) + 1
    cols = set(node.columns)
    n = len(rows)
    if not cols:
        c["nodes_zero_columns"] = c.get("nodes_zero_columns", 0) + 1
    if node.max_rows == 0:
        c["nodes_max_rows_zero"] = c.get("nodes_max_rows_zero", 0) + 1
    if node.max_rows is None:
        c["nodes_unbounded"] = c.get("nodes_unbounded", 0) + 1
    if node.is_join_identity:
        c["nodes_join_identity"] = c.get("nodes_join_identity", 0) + 1
    for r in rows:
        if set(r.keys()) != cols:
            out["violations"].append({"kind": "row_keys_differ_from_columns", "detail": f"{label}: node {short(node)} columns {sorted(map(str, cols))} row {r}"})
            break
    if n < node.min_rows or (node.max_rows is not None and n > node.max_rows):
        out["violations"].append({"kind": "row_count_outside_bounds", "detail": f"{label}: node {short(node)} has {n} rows, declared [{node.min_rows}, {node.max_rows}]"})
    if node.is_join_identity and not (n == 1 and not cols):
        out["violations"].append({"kind": "join_identity_flag_wrong", "detail": f"{label}: node {short(node)} has {n} rows, columns {sorted(map(str, cols))}"})
    if node.is_trivial and not (node.is_join_identity or n == 0):
        out["violations"].append({"kind": "trivial_flag_wrong", "detail": f"{label}: node {short(node)} has {n} rows"})


def run_case(case):
    import lsst.daf.relation as R

    out = {"counters": {}, "violations": []}
    c = out["counters"]
    prog, engine = case["prog"], case["engine"]
    db = DB(shim=True) if engine == "sql" else None
    try:
        engines = make_engines(("sql",) if engine == "sql" else ("it", "it2"))
        b = Builder(case["leaves"], engines, db)
        try:
            rel = b.build(prog)
        except BuildFailure as f:
            if "will not preserve row order" in str(f.exc):
                out["skip"] = "refused_order_loss"
            else:
                out["violations"].append({"kind": "rejected_valid_program", "detail": f"{exc_str(f.exc)} at {model.show(f.prog)}"})
            return out
        label = model.show(prog)
        nodes = list(interp.walk(rel))
        shapes = set()
        m = model.Model(case["leaves"], sql_slices=(engine == "sql"), key_dedup=(engine == "it"), strict_fragile=True)
        # the Processor is a consumer of the flags too (it drops chain branches it takes for empty and
        # never evaluates statically trivial transfers): its result must have the model's rows
        try:
            want_root = m.eval(prog)
        except model.Skip:
            want_root = None
        if want_root is not None:
            from .. import multi

            try:
                got, processed, _ = multi.evaluate(rel, db)
            except Exception as exc:  # noqa: BLE001
                if multi.prune_order_loss(rel, exc):
                    c["process_order_loss_known_finding_of_C07"] = c.get("process_order_loss_known_finding_of_C07", 0) + 1
                else:
                    out["violations"].append({"kind": "processed_not_executable", "detail": f"{label}: {exc_str(exc)}"})
            else:
                c["processed_compared"] = c.get("processed_compared", 0) + 1
                if model.canon(got) != model.canon(want_root.rows):
                    out["violations"].append({"kind": "processed_rows_differ", "detail": f"{label}: processed {short(processed)} got {short(model.canon(got), 250)} want {short(model.canon(want_root.rows), 250)}"})
                n = len(got)
                if n < rel.min_rows or (rel.max_rows is not None and n > rel.max_rows):
                    out["violations"].append({"kind": "processed_row_count_outside_bounds", "detail": f"{label}: {n} rows, declared [{rel.min_rows}, {rel.max_rows}]"})
        if engine == "sql" and any(isinstance(n, R.Materialization) and n.payload is None for n in nodes):
            # could not be processed (counted above): its nodes cannot be executed on their own
            return out
        for node in nodes[:40]:
            try:
                if engine == "sql":
                    if isinstance(node, (R.Materialization, R.Transfer)):
                        continue
                    rows = db.run(node, engines["sql"])
                else:
                    rows = list(node.engine.execute(node))
            except Exception as exc:  # noqa: BLE001
                if node is not rel and "will not preserve row order" in str(exc):
                    # an inner node that is only valid in its context (re-conforming it on its own
                    # trips the row-order policy); not a metadata matter
                    c["inner_nodes_not_executable_alone"] = c.get("inner_nodes_not_executable_alone", 0) + 1
                    continue
                out["violations"].append({"kind": "node_not_executable", "detail": f"{label}: node {short(node)}: {exc_str(exc)}"})
                continue
            check_node(node, rows, out, label)
            shapes.add(("z" if not node.columns else "c") + ("0" if node.max_rows == 0 else ("N" if node.max_rows is None else "b")) + ("I" if node.is_join_identity else ""))
        # content of every sub-program against the model (exercises the short-cut consumers)
        for sub, subrel in b.nodes:
            try:
                want = m.eval(sub)
            except model.Skip:
                c["subprograms_skipped_precondition"] = c.get("subprograms_skipped_precondition", 0) + 1
                break
            if engine == "sql" and any(isinstance(n, R.Materialization) and n.payload is None for n in interp.walk(subrel)):
                # an intermediate relation that is not part of the processed tree
                c["subprograms_with_unprocessed_materialization"] = c.get("subprograms_with_unprocessed_materialization", 0) + 1
                continue
            try:
                got = names_rows(db.run(subrel) if engine == "sql" else subrel.engine.execute(subrel))
            except Exception as exc:  # noqa: BLE001
                out["violations"].append({"kind": "subprogram_not_executable", "detail": f"{model.show(sub)}: {exc_str(exc)}"})
                break
            c["subprograms_compared"] = c.get("subprograms_compared", 0) + 1
            if model.canon(got) != model.canon(want.rows):
                out["violations"].append({"kind": "subprogram_rows_differ", "detail": f"{model.show(sub)} tree {short(subrel)} got {short(model.canon(got), 250)} want {short(model.canon(want.rows), 250)}"})
                break
        # operation relations replayed on a different operand (reapply is the public way to rebuild
        # a node over another target): the result's declared columns / bounds must describe what it
        # yields, and its rows must be those of the operation applied to the new operand
        if engine == "it":
            nre = 0
            for sub, x in b.nodes:
                if nre >= 3 or not isinstance(x, R.UnaryOperationRelation) or sub[0] not in ("sel", "sort", "slice", "dedup", "calc", "proj") or not x.target.columns:
                    continue
                have = {t.qualified_name for t in x.columns} | {t.qualified_name for t in x.target.columns}
                free = [t for t in "efg" if t not in have]
                if not free:
                    continue
                src = sorted(t.qualified_name for t in x.target.columns)[0]
                yprog = ["calc", sub[1], free[0], ["add", ["ref", src], ["lit", 1]], None]
                rprog = [sub[0], yprog] + list(sub[2:])
                try:
                    want_r = m.eval(rprog)
                    y = b.build(yprog)
                    if y.target is not x.target:
                        continue  # the program node was merged / elided: x does not sit on sub[1]'s relation
                    r = x.reapply(y)
                except (model.Skip, model.ModelError, BuildFailure, R.RelationalAlgebraError):
                    continue
                except Exception as exc:  # noqa: BLE001
                    out["violations"].append({"kind": "reapply_raised", "detail": f"{model.show(sub)} reapplied to {model.show(yprog)}: {exc_str(exc)}"})
                    continue
                nre += 1
                try:
                    rows_r = list(r.engine.execute(r))
                except Exception as exc:  # noqa: BLE001
                    out["violations"].append({"kind": "node_not_executable", "detail": f"{model.show(rprog)} (built by reapply): {short(r)}: {exc_str(exc)}"})
                    continue
                c["reapplied_nodes_checked"] = c.get("reapplied_nodes_checked", 0) + 1
                check_node(r, rows_r, out, model.show(rprog) + " (built by reapply)")
                if set(t.qualified_name for t in r.columns) != set(want_r.cols):
                    out["violations"].append({"kind": "reapplied_columns_differ", "detail": f"{model.show(rprog)} (built by reapply): declares {sorted(map(str, r.columns))}, model {sorted(want_r.cols)}"})
                elif model.canon(names_rows(rows_r)) != model.canon(want_r.rows):
                    out["violations"].append({"kind": "reapplied_rows_differ", "detail": f"{model.show(rprog)} (built by reapply) tree {short(r)} got {short(model.canon(names_rows(rows_r)), 250)} want {short(model.canon(want_r.rows), 250)}"})
        # relations that carry a cached payload now (materializations evaluated by the Processor)
        # keep their declared bounds whatever is built on them and executed afterwards
        if engine == "sql" and want_root is not None:
            from ..exprs import elib, plib

            for node in nodes[:40]:
                if not (isinstance(node, R.MarkerRelation) and not isinstance(node, Rsql.Select) and node.payload is not None and node.columns):
                    continue
                col = sorted(t.qualified_name for t in node.columns)[0]
                try:
                    before = db.run(node)
                    db.run(node.with_rows_satisfying(plib(["cmp", "gt", ["ref", col], ["lit", 0]])))
                    free = [x for x in "efg" if x not in {t.qualified_name for t in node.columns}]
                    if free:
                        from ..tags import T

                        db.run(node.with_calculated_column(T(free[0]), elib(["add", ["ref", col], ["lit", 1]])))
                    after = db.run(node)
                except Exception as exc:  # noqa: BLE001
                    out["violations"].append({"kind": "node_not_executable", "detail": f"{label}: cached node {short(node)}: {exc_str(exc)}"})
                    continue
                c["cached_nodes_rechecked"] = c.get("cached_nodes_rechecked", 0) + 1
                check_node(node, after, out, label + " (cached node, after a selection and a calculation on it were executed)")
                if model.canon(names_rows(after)) != model.canon(names_rows(before)):
                    out["violations"].append({"kind": "cached_node_rows_changed", "detail": f"{label}: node {short(node)} had {len(before)} rows, now {len(after)}"})
        if len(nodes) >= 3:
            out["sig"] = f"{engine}:{gen.op_signature(prog)}:{''.join(sorted(shapes))}"
            out["sample"] = {"engine": engine, "program": label, "nodes": len(nodes), "root_bounds": [rel.min_rows, rel.max_rows], "bound_shapes": sorted(shapes)}
        return out
    finally:
        if db:
            db.close()
