"""C20 - ill-formed requests are rejected at the factory call with the documented error."""
from __future__ import annotations

import itertools

from .. import bootstrap, exprs, gen, interp, model
from ..common import exc_str, short
from ..dbx import DB, BuildFailure, Builder, make_engines, opt_kwargs
from ..fingerprint import fingerprint
from ..monitors import structure
from ..tags import KEYS, T
from . import c03

bootstrap.ensure()

ID = "C20"
LEVEL = "fault_enumeration"
TECHNIQUE = "runtime monitoring (fault enumeration): injected ill-typed requests through all option routes, exception-class oracle + fingerprints"
RULE = (
    "fault-style enumeration: on every intermediate relation of seeded random well-typed multi-engine programs (SQL + "
    "two iteration engines, depth <= 2/3) each ill-typing from the catalogue {calculation / selection / sort / "
    "projection / join predicate that needs a missing column (preferably one hidden further upstream), calculated tag "
    "that already exists, chain operands with different columns, chain / join operands in different engines with no "
    "transfer allowed, expression supported by no engine, slice with negative start / reversed bounds / step / "
    "non-slice index} is injected and issued through a sample of the 24 preferred-engine option combinations "
    "(all of them in the thorough tier).  Each request must raise the documented class (ColumnError, EngineError, "
    "ValueError / TypeError) and must not return a relation; afterwards the fingerprint (repr, str, columns, bounds, "
    "hash, leaf payload content) of every relation of the pool must be unchanged.  Non-trivial = the target is not a "
    "bare leaf; distinct = (edit kind, option combination, target engine, target skeleton tail)."
    "  Unsupported expressions also appear nested in functions that declare support everywhere, stacked on a "
    "selection holding their portable look-alike, or next to it in one conjunction; join predicates are also "
    "issued through explicit Join(min_columns/max_columns) objects and Join.partial(is_lhs); a predicate object "
    "already used in a well-formed request is re-used in an ill-formed one. "
    "  In 40 % of the missing-column edits two columns are missing at once (the tags are hashable but not orderable). "
    "  35 % of the unsupported-expression edits restrict the function to the OTHER engine kind: such a request must raise EngineError or return a tree in which the expression sits in an engine that supports it. "
)
ASSUMPTIONS = [
    "expected exception class per edit kind follows the Raises sections of the Relation factory docstrings",
    "an expression supported by exactly one engine is not ill-formed; only expressions supported by no engine are injected",
]
MIN_OBS = {"requests_issued": 5000, "rejected_with_documented_class": 5000, "pool_fingerprints_compared": 500, "requests_through_backtracking_options": 1500}
CASE_TIMEOUT = 120
EDITS = ["calc_missing", "sel_missing", "sort_missing", "proj_missing", "join_pred_missing", "calc_existing_tag", "chain_columns",
         "chain_engines", "join_engines", "unsupported_calc", "unsupported_sel", "unsupported_sort", "unsupported_join_pred",
         "slice_negative", "slice_reversed", "slice_step", "slice_nonslice", "reused_predicate", "join_min_columns"]


def budget(tier):
    if tier == "quick":
        return {"cases": 8000, "workers": 8, "watchdog_s": 1800}
    return {"cases": 320000, "workers": 16, "watchdog_s": 3600, "budget_s": 600}


def gen_case(rng, tier):
    case = c03.gen_case(rng, tier, custom_final=False)
    case["edit_seed"] = rng.randint(0, 10**9)
    case["all_options"] = tier == "thorough"
    return case


def hidden_columns(rel):
    """Columns that exist somewhere upstream but are not visible at the root."""
    seen = set()
    for n in interp.walk(rel):
        seen |= set(n.columns)
    return sorted(c.qualified_name for c in seen - set(rel.columns))


def run_case(case):
    import random

    import lsst.daf.relation as R
    from lsst.daf.relation import iteration

    out = {"counters": {}, "violations": [], "sigs": []}
    c = out["counters"]
    rng = random.Random(case["edit_seed"])
    db = DB(shim=True)
    try:
        engines = make_engines(c03.ENG)
        b = Builder(case["leaves"], engines, db)
        try:
            b.build(case["prog"])
        except BuildFailure as bf:
            out["skip"] = "base_rejected"
            if not isinstance(bf.exc, R.RelationalAlgebraError):
                out["violations"].append({"kind": "undocumented_exception_at_construction", "detail": f"{exc_str(bf.exc)} at {model.show(bf.prog)}"})
            return out
        pool = [rel for _, rel in b.nodes]
        before = [fingerprint(r) for r in pool]
        all_combos = [None] + [{"pe": pe, "bt": bt, "tr": tr, "rq": rq} for pe, bt, tr, rq in itertools.product(c03.ENG, (True, False), (False, True), (False, True))]
        none_supported = []  # supporting_engine_types=() : no engine supports it
        nreq = 0
        for sub, rel in b.nodes:
            cols = sorted(t.qualified_name for t in rel.columns)
            hidden = hidden_columns(rel)
            missing = rng.choice(hidden) if hidden and rng.random() < 0.7 else next(x for x in KEYS + "xyz" if x not in cols)
            free = [x for x in KEYS if x not in cols]
            some = rng.choice(cols) if cols else None
            tail = gen.op_signature(sub)[-3:]
            eng_name = str(rel.engine)
            edits = EDITS if case["all_options"] else rng.sample(EDITS, 6)
            for edit in edits:
                if not free and edit in ("calc_missing", "unsupported_calc", "chain_columns"):
                    continue  # every tag is taken: these edits cannot be formed on this target
                combos = all_combos if case["all_options"] else [None] + rng.sample(all_combos[1:], 4)
                expected = R.ColumnError
                relaxed = False
                calls = []
                mref = ["ref", missing]
                # 40 %: TWO columns are missing at once (tags need not be orderable or otherwise
                # comparable beyond equality: whatever builds the error message must cope)
                missing2 = next((x for x in KEYS + "xyz" if x not in cols and x != missing), None)
                two = missing2 is not None and rng.random() < 0.4
                if two:
                    c["requests_missing_two_columns"] = c.get("requests_missing_two_columns", 0) + 1
                    mref = ["add", ["ref", missing], ["ref", missing2]]
                if edit == "calc_missing":
                    e = ["add", mref, ["ref", some]] if some else mref
                    calls = [(o, lambda kw, e=e: rel.with_calculated_column(T(free[0]), exprs.elib(e), **kw)) for o in combos]
                elif edit == "sel_missing":
                    p = ["and", [["cmp", "lt", mref, ["lit", 1]]] + ([["cmp", "ge", ["ref", some], ["lit", 0]]] if some else []), "ctor"]
                    calls = [(o, lambda kw, p=p: rel.with_rows_satisfying(exprs.plib(p), **kw)) for o in combos]
                elif edit == "sort_missing":
                    terms = ([[["ref", some], True]] if some else []) + [[mref, False]]
                    calls = [(o, lambda kw, terms=terms: rel.sorted([R.SortTerm(exprs.elib(e), a) for e, a in terms], **kw)) for o in combos]
                elif edit == "proj_missing":
                    keep = set(cols[:1]) | {missing} | ({missing2} if two else set())
                    calls = [(o, lambda kw, keep=keep: rel.with_only_columns({T(x) for x in keep}, **kw)) for o in combos]
                elif edit == "calc_existing_tag":
                    if not cols:
                        continue
                    calls = [(o, lambda kw: rel.with_calculated_column(T(some), exprs.elib(["neg", ["ref", cols[0]]]), **kw)) for o in combos]
                elif edit in ("join_pred_missing", "unsupported_join_pred", "join_engines"):
                    if rel.is_join_identity:
                        continue  # joining a join identity is documented to return the other operand
                    if edit == "join_engines":
                        other_engine = next(e for e in engines.values() if e is not rel.engine)
                    elif edit == "join_pred_missing":
                        other_engine = rng.choice(list(engines.values()))  # also across engines (backtracking routes)
                    else:
                        other_engine = rel.engine
                    fixed = other_engine.make_leaf({T("a")}, iteration.RowSequence([{T("a"): 1}]) if isinstance(other_engine, iteration.Engine) else db.make_table("fx", [T("a")], [{T("a"): 1}]), name=f"FX{nreq}")
                    if edit == "join_pred_missing":
                        # prefer a column that exists upstream but is hidden here
                        free2 = missing if missing != "a" else next(x for x in KEYS + "xyz" if x not in cols and x != "a")
                        p = exprs.plib(["cmp", "eq", ["ref", free2] if not two else ["add", ["ref", free2], ["ref", next(x for x in KEYS + "xyz" if x not in cols and x not in ("a", free2))]], ["lit", 0]])
                        calls = [({"bt": bt, "tr": tr}, lambda kw, p=p: rel.join(fixed, p, **kw)) for bt in (True, False) for tr in (False, True)]
                    elif edit == "unsupported_join_pred":
                        expected = R.EngineError
                        base_p = ["rcmp", "ge", ["ref", "a"], ["lit", 0], none_supported]
                        # also as part of a predicate that folds to True: the node would still hold it
                        p = exprs.plib(rng.choice([base_p, ["or", [base_p, ["plit", True]], "ctor"], ["not", ["and", [base_p, ["plit", False]], "ctor"]]]))
                        calls = [({"bt": bt, "tr": tr}, lambda kw, p=p: rel.join(fixed, p, **kw)) for bt in (True, False) for tr in (False, True)]
                    else:
                        expected = R.EngineError
                        calls = [({"bt": False, "tr": False}, lambda kw: rel.join(fixed, None, backtrack=False, transfer=False))]
                elif edit == "chain_columns":
                    wrong = set(cols) | {free[0]}
                    other = rel.engine.make_leaf({T(x) for x in wrong}, iteration.RowSequence([]) if isinstance(rel.engine, iteration.Engine) else db.make_table("cx", [T(x) for x in sorted(wrong)], []), name=f"CX{nreq}")
                    calls = [(None, lambda kw: rel.chain(other)), (None, lambda kw: other.chain(rel))]
                elif edit == "chain_engines":
                    expected = R.EngineError
                    oe = next(e for e in engines.values() if e is not rel.engine)
                    other = oe.make_leaf(set(rel.columns), iteration.RowSequence([]) if isinstance(oe, iteration.Engine) else db.make_table("ce", sorted(rel.columns, key=str), []), name=f"CE{nreq}")
                    calls = [(None, lambda kw: rel.chain(other)), (None, lambda kw: other.chain(rel))]
                elif edit.startswith("unsupported_"):
                    if not cols:
                        continue
                    expected = R.EngineError
                    restr = none_supported
                    if rng.random() < 0.35:
                        # supported by the OTHER engine kind only: the request is ill-formed wherever the
                        # operation would end up in this relation's engine; it may legitimately succeed
                        # where the options move it into an engine of the supporting kind
                        restr = ["sql"] if isinstance(rel.engine, iteration.Engine) else ["it"]
                        relaxed = True
                    bad_e = ["rfn", "neg", [["ref", some]], restr]
                    bad_p = ["rcmp", "lt", ["ref", some], ["lit", 1], restr]
                    if restr and rng.random() < 0.4:
                        # a function every engine has registered under that name, restricted by the expression
                        bad_e = ["rfn", "both", [["ref", some]], restr]
                        bad_p = ["cmp", "lt", bad_e, ["lit", 1]]
                    nest = rng.random()
                    if nest < 0.35:
                        # the unsupported call is an argument of a function that itself declares
                        # support for every engine (explicitly or by default)
                        everywhere = ["sql", "it"]
                        bad_e = rng.choice([["rfn", "add", [bad_e, ["lit", 0]], everywhere], ["add", ["lit", 0], bad_e], ["rfn", "neg", [["rfn", "sub", [["ref", some], bad_e], everywhere]], everywhere]])
                        bad_p = rng.choice([["rcmp", "lt", bad_e, ["lit", 1], everywhere], ["cmp", "ge", bad_e, ["lit", 0]], ["not", ["rcmp", "eq", ["lit", 1], bad_e, everywhere]]])
                    if edit == "unsupported_calc":
                        calls = [(o, lambda kw: rel.with_calculated_column(T(free[0]), exprs.elib(bad_e), **kw)) for o in combos]
                    elif edit == "unsupported_sel":
                        tgt = rel
                        if nest >= 0.35 and nest < 0.6:
                            # the unsupported term comes after an equal-looking supported one (equality
                            # of expressions ignores the engine restriction): stacked on a selection
                            # that holds the supported twin, or next to it in one conjunction
                            ok_p = ["cmp", "lt", ["ref", some], ["lit", 1]]
                            if nest < 0.5:
                                try:
                                    tgt = rel.with_rows_satisfying(exprs.plib(ok_p))
                                except R.RelationalAlgebraError:
                                    tgt = rel
                            else:
                                bad_p = ["and", [ok_p, bad_p], rng.choice(["factory", "ctor"])]
                        calls = [(o, lambda kw, tgt=tgt, bad_p=bad_p: tgt.with_rows_satisfying(exprs.plib(bad_p), **kw)) for o in combos]
                    else:
                        calls = [(o, lambda kw: rel.sorted([R.SortTerm(exprs.elib(bad_e))], **kw)) for o in combos]
                elif edit == "join_min_columns":
                    # explicit Join.min_columns / resolved common columns that the target does not have
                    if rel.is_join_identity:
                        continue
                    mt = T(missing)
                    fixed = rel.engine.make_leaf({mt}, iteration.RowSequence([{mt: 1}]) if isinstance(rel.engine, iteration.Engine) else db.make_table("jm", [mt], [{mt: 1}]), name=f"JM{nreq}")
                    calls = [
                        (None, lambda kw: R.Join(min_columns=frozenset({mt})).apply(rel, fixed)),
                        (None, lambda kw: R.Join(min_columns=frozenset({mt}), max_columns=frozenset({mt})).apply(rel, fixed)),
                        (None, lambda kw: R.Join(min_columns=frozenset({mt}), max_columns=frozenset({mt})).apply(fixed, rel)),
                        ({"bt": True, "tr": False}, lambda kw: R.Join(min_columns=frozenset({mt})).partial(fixed, is_lhs=True).apply(rel)),
                    ]
                elif edit == "reused_predicate":
                    # the same predicate OBJECT is first used where it is well-formed (a join whose other
                    # operand supplies its column) and then where that column is missing
                    if "a" in cols or rel.is_join_identity:
                        continue
                    fixed = rel.engine.make_leaf({T("a")}, iteration.RowSequence([{T("a"): 1}]) if isinstance(rel.engine, iteration.Engine) else db.make_table("rp", [T("a")], [{T("a"): 1}]), name=f"RP{nreq}")
                    first = ["cmp", "ge", ["ref", "a"], ["lit", 0]]
                    shapes = [first, ["or", [first, ["cmp", "lt", ["ref", "a"], ["lit", -9]]], "ctor"], ["not", first]]
                    if some:
                        shapes.append(["and", [first, ["cmp", "le", ["ref", some], ["lit", 9]]], "ctor"])
                    shared = exprs.plib(rng.choice(shapes))
                    try:
                        rel.join(fixed, shared)
                        c["reused_predicate_first_use_ok"] = c.get("reused_predicate_first_use_ok", 0) + 1
                    except R.RelationalAlgebraError:
                        pass
                    calls = [(o, lambda kw, shared=shared: rel.with_rows_satisfying(shared, **kw)) for o in combos]
                elif edit == "slice_negative":
                    expected = (ValueError, TypeError)
                    calls = [(None, lambda kw: rel[-1:2]), (None, lambda kw: rel[-2:])]
                elif edit == "slice_reversed":
                    expected = (ValueError, TypeError)
                    calls = [(None, lambda kw: rel[3:1]), (None, lambda kw: rel[5:0])]
                elif edit == "slice_step":
                    expected = (ValueError, TypeError)
                    calls = [(None, lambda kw: rel[0:4:2]), (None, lambda kw: rel[::3])]
                elif edit == "slice_nonslice":
                    expected = (ValueError, TypeError)
                    calls = [(None, lambda kw: rel[0]), (None, lambda kw: rel["a"])]
                for opt, call in calls:
                    nreq += 1
                    c["requests_issued"] = c.get("requests_issued", 0) + 1
                    if opt and opt.get("pe") and opt["pe"] != eng_name:
                        c["requests_through_backtracking_options"] = c.get("requests_through_backtracking_options", 0) + 1
                    kw = {k: v for k, v in (("backtrack", opt.get("bt")), ("transfer", opt.get("tr"))) if v is not None} if (opt and "pe" not in opt) else opt_kwargs(opt, engines)
                    what = f"{edit} on {model.show(sub)} (engine {eng_name}) with {opt}"
                    try:
                        res = call(kw)
                    except expected:
                        c["rejected_with_documented_class"] = c.get("rejected_with_documented_class", 0) + 1
                        outcome = "ok"
                    except R.RelationalAlgebraError as exc:
                        if "will not preserve row order" in str(exc) and ("join" in edit or "chain" in edit):
                            # the (sorted) target cannot be an operand of any binary operation: the
                            # documented row-order-loss error legitimately comes first
                            c["rejected_with_row_order_error"] = c.get("rejected_with_row_order_error", 0) + 1
                            outcome = "order"
                        else:
                            outcome = "wrong_class"
                            out["violations"].append({"kind": f"wrong_exception_class:{edit}", "detail": f"{what}: raised {exc_str(exc)}, documented {expected}"})
                    except Exception as exc:  # noqa: BLE001
                        outcome = "wrong_class"
                        out["violations"].append({"kind": f"wrong_exception_class:{edit}", "detail": f"{what}: raised {exc_str(exc)}, documented {expected}"})
                    else:
                        outcome = "accepted"
                        if relaxed:
                            # acceptable only if the expression ended up in an engine that supports it
                            bad = [d for k, d in structure.check_c14(res) if "support" in k]
                            if bad:
                                out["violations"].append({"kind": f"ill_formed_request_accepted:{edit}", "detail": f"{what}: returned {short(res, 300)}, in which {bad[0]}"})
                            else:
                                outcome = "moved"
                                c["restricted_requests_served_in_supporting_engine"] = c.get("restricted_requests_served_in_supporting_engine", 0) + 1
                        else:
                            out["violations"].append({"kind": f"ill_formed_request_accepted:{edit}", "detail": f"{what}: returned {short(res, 300)}"})
                    if sub[0] != "leaf":
                        o = opt or {}
                        out["sigs"].append(f"{edit}:{o.get('pe')}{int(bool(o.get('bt', True)))}{int(bool(o.get('tr', False)))}{int(bool(o.get('rq', False)))}:{eng_name}:{tail}:{outcome}")
        after = [fingerprint(r) for r in pool]
        c["pool_fingerprints_compared"] = len(pool)
        for r, f0, f1 in zip(pool, before, after):
            if f0 != f1:
                diff = [i for i, (x, y) in enumerate(zip(f0, f1)) if x != y]
                out["violations"].append({"kind": "rejected_call_changed_existing_relation", "detail": f"{short(r, 200)}: fingerprint fields {diff} changed"})
        out["evaluations"] = nreq
        if out["sigs"]:
            out["sample"] = {"base": model.show(case["prog"]), "requests": nreq, "example": out["sigs"][0]}
        return out
    finally:
        db.close()
