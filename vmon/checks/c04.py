"""C04 - commutation reports are sound for every operation pair and target."""
from __future__ import annotations

from .. import bootstrap, exprs
from ..common import exc_str
from ..monitors import commute as mon
from ..tags import T, is_key

bootstrap.ensure()

ID = "C04"
LEVEL = "exploration"
TECHNIQUE = "runtime monitoring: commute() reports judged by an independent interpreter on witness targets (direct enumeration + hook on every internal call)"
RULE = (
    "seeded enumeration of ordered pairs (new operation, existing operation) from {Calculation, Deduplication, "
    "Projection, Selection, Slice, Sort, PartialJoin(lhs/rhs fixed)}^2 with parameter shapes aimed at every guard "
    "(projections that keep/drop the calculated tag or the required columns, new tags / join columns that collide "
    "with columns hidden by the existing projection, sorts on present/absent columns, count- and order-dependent "
    "existing operations); new.commute(existing) is called on the real objects and the reported (first, second, "
    "done) is evaluated by the independent interpreter on the target rows and 5 derived witness targets (reversed, "
    "rotated, with duplicates, single row, empty) and compared - as exact ordered lists - with existing-then-new; "
    "well-formedness of first/second on the relations they would be applied to is checked; refusals must hand back "
    "the existing operation.  Non-trivial = a move was reported; distinct = (new kind, existing kind, outcome, "
    "collision flags)."
    "  The existing operation may also be a user-defined count-dependent RowFilter or order-dependent Reordering "
    "(evaluated by the interpreter through their own definition); a report with first=None and done=True is "
    "evaluated as the documented 'simplifies away' case (second alone must equal existing-then-new); further "
    "commutes are issued against the same relation object.  In 30 % of the cases the predicate objects of the pair "
    "are first handed to another operation (a join whose fixed operand supplies some of their columns), as a user "
    "reusing a predicate object would; equal predicates share one object within a case.  The new operation may be a "
    "user-defined RowFilter / Reordering too (whatever commute() they inherit is judged like any other).  In 20 % of "
    "the cases the existing operation sits on a tree of 1-3 operations over the leaf (35 % of those: a sort on a column, a "
    "projection dropping it and a calculation re-creating its tag); such reports are judged on the tree's actual rows only. "
    "  Rows of a fixed join operand are read from the leaf object the reported operation actually holds (leaves may share a name and compare equal while holding different rows). "
)
ASSUMPTIONS = [
    "interpreter vmon/interp.py (full-row deduplication; witness rows satisfy the key functional dependency)",
    "commutators are specified for order-preserving engines, so lists are compared exactly",
]
MIN_OBS = {"repeat_commutes_checked": 500, "commutes_on_tree_targets": 2000, "predicates_used_elsewhere_first": 300, "witness_targets_evaluated": 2000, "refused": 100, "full": 300, "partial": 20}
KINDS = ["calc", "dedup", "proj", "sel", "slice", "sort", "join", "calc", "dedup", "proj", "sel", "slice", "sort", "join", "cap", "rev"]  # new operation; extension operations 1 in 8
CURRENT_KINDS = ["calc", "dedup", "proj", "sel", "slice", "sort", "cap", "rev"]  # incl. extension operations
_state: dict = {}


def setup(tier):
    from lsst.daf.relation import iteration

    _state["it"] = iteration.Engine(name="it")
    _state["it2"] = iteration.Engine(name="it2")


def budget(tier):
    if tier == "quick":
        return {"cases": 200000, "workers": 8, "watchdog_s": 1800}
    return {"cases": 8000000, "workers": 16, "watchdog_s": 3600, "budget_s": 600}


def gen_rows(rng, cols, n):
    keys = [c for c in cols if is_key(c)]
    rows = []
    for _ in range(n):
        r = {c: rng.randint(-1, 2) for c in keys}
        for c in cols:
            if not is_key(c):
                r[c] = (sum(r[k] for k in keys) * 3 + 1) % 4
        rows.append([r[c] for c in cols])
    if rows and rng.random() < 0.5:
        rows += [list(rng.choice(rows)) for _ in range(rng.randint(1, 2))]
        rng.shuffle(rows)
    return rows


def gen_op(rng, kind, cols, tag_pool, fixed_cols_pool):
    cols = sorted(cols)
    if kind == "calc":
        free = [c for c in tag_pool if c not in cols]
        if not cols or not free:
            return None
        e = exprs.gen_e(rng, cols, 2, need_col=True)
        if not exprs.ecols(e):
            return None
        return ["calc", rng.choice(free), e]
    if kind == "dedup":
        return ["dedup"]
    if kind == "proj":
        keep = [c for c in cols if rng.random() < 0.6]
        return ["proj", keep]
    if kind == "sel":
        return ["sel", exprs.gen_p(rng, cols, 1, wild_ranges=True)]
    if kind == "slice":
        start = rng.choice([0, 0, 1, 2])
        return ["slice", start, rng.choice([None, start, start + 1, start + 2, 6])]
    if kind == "sort":
        if not cols:
            return None
        terms = [[exprs.gen_e(rng, cols, 1, need_col=True), rng.random() < 0.5] for _ in range(rng.randint(1, 2))]
        return ["sort", terms]
    if kind == "cap":
        return ["cap", rng.choice([0, 1, 2, 3, 5])]
    if kind == "rev":
        return ["rev"]
    if kind == "alt":
        return ["alt"]
    if kind == "join":
        fcols = sorted(c for c in fixed_cols_pool if rng.random() < 0.5)
        shared_nonkey = [c for c in fcols if not is_key(c) and c in cols]
        fcols = [c for c in fcols if c not in shared_nonkey]
        allc = sorted(set(cols) | set(fcols))
        p = exprs.gen_p(rng, allc, 1) if rng.random() < 0.4 else None
        return ["join", p, rng.random() < 0.5, fcols, gen_rows(rng, fcols, rng.choice([0, 1, 2, 4]))]
    raise AssertionError(kind)


def gen_case(rng, tier):
    pool = ["a", "b", "c", "d", "x"]
    tcols = sorted(rng.sample(pool, rng.randint(1, 4)))
    if not any(is_key(c) for c in tcols):
        tcols = sorted(set(tcols) | {"a"})
    rows = gen_rows(rng, tcols, rng.choice([0, 1, 2, 3, 5, 7]))
    for _ in range(20):
        cur = gen_op(rng, rng.choice(CURRENT_KINDS), tcols, ["e", "f"], ["a", "b", "c", "d", "e", "f"])
        if cur is not None:
            break
    # columns after the existing operation
    ccols = set(tcols)
    if cur[0] == "calc":
        ccols.add(cur[1])
    elif cur[0] == "proj":
        ccols = set(cur[1])
    elif cur[0] == "join":
        ccols |= set(cur[3])
    hidden = sorted(set(tcols) - ccols)
    tag_pool = ["e", "f", "g"] + hidden * 3  # bias towards tags that collide with hidden columns
    fixed_pool = ["a", "b", "c", "d", "e", "f"] + hidden
    new = None
    for _ in range(20):
        new = gen_op(rng, rng.choice(KINDS), ccols, tag_pool, fixed_pool)
        if new is not None:
            break
    # further requests against the SAME existing relation object (its expression objects carry
    # cached state that an earlier commute() must not have disturbed)
    extra = []
    for _ in range(rng.randint(0, 3)):
        e = gen_op(rng, rng.choice(["proj", "proj", "sel", "sort", "calc"]), ccols, tag_pool, fixed_pool)
        if e is not None:
            extra.append(e)
    case = {"tcols": tcols, "rows": rows, "current": cur, "new": new, "extra": extra}
    if rng.random() < 0.2 and cur[0] != "join" and new[0] != "join":
        # the existing operation sits on a TREE (0-3 operations over the leaf), not on a leaf: a report
        # may use what it finds upstream, and has to be right for that very target
        pcols, prefix = list(tcols), []
        if rng.random() < 0.35 and len(tcols) >= 2:
            # directed: sort on a column, project it away, re-create its tag from another column
            c0 = rng.choice([c for c in tcols if is_key(c)] or tcols)
            others = [c for c in tcols if c != c0]
            prefix = [["sort", [[["ref", c0], rng.random() < 0.5]]], ["proj", others], ["calc", c0, rng.choice([["neg", ["ref", others[0]]], ["mul", ["ref", others[0]], ["ref", others[0]]]])]]
        else:
            for _ in range(rng.randint(1, 3)):
                op = gen_op(rng, rng.choice(["sort", "proj", "calc", "sel", "dedup", "sort"]), pcols, ["e", "f"] + [c for c in pool if c not in pcols], [])
                if op is None:
                    continue
                prefix.append(op)
                if op[0] == "proj":
                    pcols = list(op[1])
                elif op[0] == "calc":
                    pcols = sorted(set(pcols) | {op[1]})
        if prefix:
            end = set(tcols)
            for op in prefix:
                end = set(op[1]) if op[0] == "proj" else (end | {op[1]} if op[0] == "calc" else end)
            if end and any(is_key(c) for c in end):
                # the pair is generated again for the columns the tree exposes
                for _ in range(20):
                    cur2 = gen_op(rng, rng.choice([k for k in CURRENT_KINDS]), sorted(end), ["e", "f"], [])
                    if cur2 is not None:
                        break
                ccols2 = set(end)
                if cur2 is not None:
                    if cur2[0] == "calc":
                        ccols2.add(cur2[1])
                    elif cur2[0] == "proj":
                        ccols2 = set(cur2[1])
                    new2 = None
                    for _ in range(20):
                        new2 = gen_op(rng, rng.choice(["calc", "dedup", "proj", "sel", "slice", "sort", "sort"]), ccols2, ["e", "f", "g"] + sorted(set(tcols) - ccols2) * 2, [])
                        if new2 is not None:
                            break
                    if new2 is not None:
                        case.update(prefix=prefix, current=cur2, new=new2, extra=[])
                        case.pop("prior_use", None)
    if rng.random() < 0.3:
        case["prior_use"] = rng.randint(0, 15)
    return case


_objs: dict = {}


def _plib(ast):
    """One library object per distinct predicate AST within a case (users build a predicate once and
    hand the same object to several operations; per-object cached state is then shared)."""
    k = repr(ast)
    if k not in _objs:
        _objs[k] = exprs.plib(ast)
    return _objs[k]


def prior_use(case, it, rng_bits):
    """Before the commute, hand the predicate objects of the case to *another* operation, as a user
    who reuses a predicate would: a join whose fixed operand supplies some of the predicate's
    columns.  Reading that operation's attributes must leave the predicate object as it was."""
    import lsst.daf.relation as R
    from lsst.daf.relation import iteration

    n = 0
    for spec in (case["current"], case["new"]):
        ast = spec[1] if spec[0] in ("sel", "join") else None
        if ast is None:
            continue
        cols = sorted(exprs.pcols(ast))
        if not cols:
            continue
        fixed_cols = [c for i, c in enumerate(cols) if (rng_bits >> i) & 1]
        other_cols = [c for c in cols if c not in fixed_cols] or cols[:1]
        fixed = it.make_leaf({T(c) for c in fixed_cols}, iteration.RowSequence([]), name="P0")
        other = it.make_leaf({T(c) for c in other_cols}, iteration.RowSequence([]), name="P1")
        try:
            pj = R.Join(_plib(ast)).partial(fixed)
            pj.columns_required  # noqa: B018
            pj.apply(other)
            R.Selection(_plib(ast)).columns_required  # noqa: B018
        except R.RelationalAlgebraError:
            pass
        n += 1
    return n


def to_op(spec, fixed_engine):
    import lsst.daf.relation as R
    from lsst.daf.relation import iteration

    k = spec[0]
    if k == "calc":
        return R.Calculation(T(spec[1]), exprs.elib(spec[2])), None
    if k == "dedup":
        return R.Deduplication(), None
    if k == "proj":
        return R.Projection(frozenset(T(c) for c in spec[1])), None
    if k == "sel":
        return R.Selection(_plib(spec[1])), None
    if k == "slice":
        return R.Slice(spec[1], spec[2]), None
    if k == "sort":
        return R.Sort(tuple(R.SortTerm(exprs.elib(e), asc) for e, asc in spec[1])), None
    if k == "cap":
        from ..ext import RowCap

        return RowCap(spec[1]), None
    if k == "rev":
        from ..ext import Reverse

        return Reverse(), None
    if k == "alt":
        from ..ext import Alternate

        return Alternate(), None
    if k == "join":
        ftags = [T(c) for c in spec[3]]
        frows = [dict(zip(ftags, r)) for r in spec[4]]
        fixed = fixed_engine.make_leaf(set(ftags), iteration.RowSequence(frows), name="F")
        j = R.Join(_plib(spec[1]) if spec[1] is not None else R.Predicate.literal(True))
        return j.partial(fixed, is_lhs=spec[2]), (fixed, frows)
    raise AssertionError(spec)


def run_case(case):
    import lsst.daf.relation as R
    from lsst.daf.relation import iteration

    out = {"counters": {}, "violations": []}
    it, it2 = _state["it"], _state["it2"]
    ttags = [T(c) for c in case["tcols"]]
    rows = [dict(zip(ttags, r)) for r in case["rows"]]
    target = it.make_leaf(set(ttags), iteration.RowSequence(rows), name="T")
    registry = {"T": rows}

    def rows_of(leaf, reg):
        # read what the leaf object actually holds (two leaves may share a name - and compare
        # equal - while holding different rows); fall back to the registry by name
        p = leaf.payload
        if isinstance(p, iteration.RowIterable):
            return list(p)
        return reg[leaf.name]

    def leaf_rows(leaf):
        return rows_of(leaf, registry)

    _objs.clear()
    if case.get("prior_use") is not None:
        try:
            out["counters"]["predicates_used_elsewhere_first"] = prior_use(case, it, case["prior_use"])
        except Exception as exc:  # noqa: BLE001
            out["violations"].append({"kind": "prior_use_raised", "detail": exc_str(exc)})
            return out
    nonleaf = False
    for spec in case.get("prefix", []):
        try:
            pre, _ = to_op(spec, it)
            nxt = pre.apply(target)
        except R.RelationalAlgebraError:
            out["skip"] = "prefix_invalid"
            return out
        nonleaf = nonleaf or nxt is not target
        target = nxt
    try:
        cur_op, cur_fixed = to_op(case["current"], it)
        if cur_fixed:
            registry["F"] = cur_fixed[1]
        current = cur_op.apply(target)
    except R.RelationalAlgebraError:
        out["skip"] = "current_invalid"
        return out
    if not isinstance(current, R.UnaryOperationRelation):
        out["skip"] = "current_not_unary_node"
        return out
    try:
        new_op, new_fixed = to_op(case["new"], it2 if case["new"][0] == "join" else it)
        if new_fixed:
            # keep the two fixed relations apart in the registry
            new_fixed[0].__dict__  # noqa: B018 (frozen dataclass; name is "F")
            registry_new = dict(registry)
            registry_new["F"] = new_fixed[1]
        else:
            registry_new = registry
        operation, _ = new_op._begin_apply(current, None)
    except R.RelationalAlgebraError:
        out["skip"] = "new_invalid_on_current"
        return out
    if isinstance(operation, R.Identity):
        out["skip"] = "new_is_identity"
        return out
    if cur_fixed and new_fixed:
        out["skip"] = "two_fixed_relations"
        return out

    def leaf_rows2(leaf):
        return rows_of(leaf, registry_new)

    mon.COUNTERS.clear()
    try:
        c = operation.commute(current)
    except Exception as exc:  # noqa: BLE001
        out["violations"].append({"kind": "commute_raised", "detail": f"{exc_str(exc)} new={operation} current={current}"})
        return out
    if nonleaf:
        out["counters"]["commutes_on_tree_targets"] = 1
    vs = mon.check_commute(operation, current, c, leaf_rows2, base_rows=None if nonleaf else rows, single_witness=nonleaf)
    mon.drain()
    out["violations"].extend(vs)
    out["counters"].update(mon.COUNTERS)
    outcome = "refused" if c.first is None else ("full" if c.done else "partial")
    hidden = set(case["tcols"]) - {t.qualified_name for t in current.columns}
    flags = []
    if case["new"][0] == "calc" and case["new"][1] in hidden:
        flags.append("tag_hidden")
    if case["new"][0] == "join" and hidden & set(case["new"][3]):
        flags.append("fixed_has_hidden")
    req = {t.qualified_name for t in operation.columns_required}
    if not req <= set(case["tcols"]):
        flags.append("needs_new_cols")
    if outcome != "refused":
        out["sig"] = f"{case['new'][0]}>{case['current'][0]}:{outcome}:{','.join(flags)}"
        out["sample"] = {"new": str(operation), "existing": str(current), "first": str(c.first), "second": str(c.second), "done": c.done, "target_rows": len(rows)}
    out["counters"][f"pair_{case['new'][0]}_{case['current'][0]}"] = 1
    # ---- more commutes against the same existing relation object
    from .. import interp
    from ..monitors import structure

    for spec in case.get("extra", []):
        try:
            op2, _ = to_op(spec, it)
            op2, _ = op2._begin_apply(current, None)
        except R.RelationalAlgebraError:
            continue
        if isinstance(op2, R.Identity):
            continue
        try:
            c2 = op2.commute(current)
        except Exception as exc:  # noqa: BLE001
            out["violations"].append({"kind": "commute_raised", "detail": f"{exc_str(exc)} new={op2} current={current} (after earlier commutes on the same relation)"})
            break
        mon.COUNTERS.clear()
        vs2 = mon.check_commute(op2, current, c2, leaf_rows, base_rows=rows)
        for v in vs2:
            v["detail"] += " (after earlier commutes on the same relation object)"
        out["violations"].extend(vs2)
        out["counters"]["repeat_commutes_checked"] = out["counters"].get("repeat_commutes_checked", 0) + 1
        mon.drain()
    for e in list(structure.exprs_of(current.operation)) + list(structure.exprs_of(operation)):
        for node in interp.subexpressions(e):
            if set(node.columns_required) != interp.expr_refs(node):
                out["violations"].append({"kind": "commute_corrupted_required_columns", "detail": f"{node} of {current} now declares {sorted(map(str, node.columns_required))} but references {sorted(map(str, interp.expr_refs(node)))}"})
                break
    return out
