"""C19 - generated relation names are unique across all calls and threads."""
from __future__ import annotations

import random
import sys
import threading
import time

from .. import bootstrap
from ..monitors import hooks
from ..tags import T

bootstrap.ensure()

ID = "C19"
LEVEL = "exploration"
TECHNIQUE = "runtime monitoring: multi-threaded stress with sys.monitoring yield injection and a uniqueness monitor"
RULE = (
    "rounds of 8 (quick) / 16 (thorough) threads x 150-300 name requests over 1-3 engines (iteration and SQL) through "
    "all three request routes (Engine.get_relation_name, LeafRelation construction without a name, materialized() "
    "without a name) with random prefixes; sys.setswitchinterval(1e-6) and a sys.monitoring LINE-event callback on "
    "get_relation_name's code object yields the GIL (sleep(0)) with probability 1/2 at each of its statements, i.e. "
    "between reading the counter and writing it back.  The monitor (a wrapper on get_relation_name, own lock) records "
    "every name handed out; all names of a round and of the whole run must be pairwise distinct and start with the "
    "requested prefix.  Observed interleavings are measured: requests whose counter field equals that of another "
    "request on the same engine (two threads read the same counter before either wrote it back).  Non-trivial = a "
    "round in which >= 1 such interleaving was observed; distinct = (threads, engines, interleaving bucket, route mix)."
    "  A fourth route is Engine.make_leaf with empty and non-empty payloads; prefixes include identifier-like, "
    "58-72 character, non-identifier ('deepCoadd.calexp', 'u/someone/run 1') and non-ASCII ones.  Half of the engines "
    "of a round are additionally cloned (copy.copy, copy.deepcopy or a pickle round trip) after they have handed "
    "out some names; the clone is a different engine that takes part in the round like the others.  A fifth route "
    "materializes without a name, transfers the result to another engine and materializes again without a name.  "
    "Before every round the global `random` generator is re-seeded to the same value, as a host program may do. "
    "  The fifth route also materializes the same first materialization a second time after a transfer. "
)
ASSUMPTIONS = [
    "schedules are explored only at the statement boundaries of get_relation_name (the only shared mutable state "
    "involved is the engine's relation_name_counter)",
    "CPython with the GIL; the monitor's own list is protected by its own lock",
]
MIN_OBS = {"names_recorded": 20000, "cloned_engines": 10, "observed_interleavings": 50, "injected_yields": 1000, "rounds": 10}
_rec = {"lock": threading.Lock(), "names": [], "yields": 0}


def budget(tier):
    if tier == "quick":
        return {"cases": 0, "workers": 4, "watchdog_s": 900}
    return {"cases": 0, "workers": 16, "watchdog_s": 3600}


def setup(tier):
    import lsst.daf.relation as R

    hooks.require()
    orig = R.GenericConcreteEngine.__dict__["get_relation_name"]
    _rec["code"] = orig.__code__

    def make(func):
        def get_relation_name(self, prefix="leaf"):
            name = func(self, prefix)
            with _rec["lock"]:
                _rec["names"].append((name, prefix, id(self), threading.get_ident()))
            return name

        return get_relation_name

    hooks.wrap_method(R.GenericConcreteEngine, "get_relation_name", make, key="names")


def install_yield_injector(rng_seed):
    mon = sys.monitoring
    tool = 4
    try:
        mon.use_tool_id(tool, "vmon-c19")
    except ValueError:
        pass
    rng = random.Random(rng_seed)
    lock = threading.Lock()

    def on_line(code, line):
        with lock:
            go = rng.random() < 0.5
            if go:
                _rec["yields"] += 1
        if go:
            time.sleep(0)

    mon.register_callback(tool, mon.events.LINE, on_line)
    mon.set_local_events(tool, _rec["code"], mon.events.LINE)
    return tool


def remove_yield_injector(tool):
    mon = sys.monitoring
    mon.set_local_events(tool, _rec["code"], 0)
    mon.register_callback(tool, mon.events.LINE, None)
    try:
        mon.free_tool_id(tool)
    except ValueError:
        pass


def one_round(rng, nthreads, nreq):
    import lsst.daf.relation as R
    from lsst.daf.relation import iteration, sql

    nengines = rng.randint(1, 3)
    engines = [iteration.Engine(name=f"it{i}") if rng.random() < 0.6 else sql.Engine(name=f"sql{i}") for i in range(nengines)]
    # engines derived from an existing one after it has handed out some names: copy.copy,
    # copy.deepcopy and a pickle round trip all give a *different* engine whose counter (and any
    # other per-engine state) starts where the original stands
    import copy
    import pickle

    ncloned = 0
    for e in list(engines):
        if rng.random() < 0.5:
            for _ in range(rng.randint(0, 5)):
                e.get_relation_name(rng.choice(["leaf", "materialization"]))
            how = rng.choice(["copy", "deepcopy", "pickle"])
            clone = copy.copy(e) if how == "copy" else copy.deepcopy(e) if how == "deepcopy" else pickle.loads(pickle.dumps(e))
            engines.append(clone)
            ncloned += 1
    nengines = len(engines)
    _rec["cloned"] = _rec.get("cloned", 0) + ncloned
    a = T("a")
    bases = []
    for e in engines:
        leaf = e.make_leaf({a}, iteration.RowSequence([]) if isinstance(e, iteration.Engine) else object(), name=f"base_{id(e)}")
        bases.append(leaf.without_duplicates())
    prefixes = ["leaf", "materialization", "tmp", "x_1", "", "p" * 58, "long_prefix_" * 6, "q" * 70,
                "deepCoadd.calexp", "raw-2", "u/someone/run 1", "Ünï_cødé", "materialization_"]
    plans = []
    for t in range(nthreads):
        r = random.Random(rng.random())
        plans.append([(r.randrange(nengines), r.choice(["direct", "leaf", "mat", "makeleaf", "direct", "leaf", "mat", "makeleaf", "matx"]), r.choice(prefixes)) for _ in range(nreq)])
    results = [[] for _ in range(nthreads)]
    errors = []
    barrier = threading.Barrier(nthreads)

    def work(t):
        try:
            barrier.wait()
            for ei, route, prefix in plans[t]:
                e = engines[ei]
                if route == "direct":
                    name = e.get_relation_name(prefix)
                elif route == "makeleaf":
                    # the engines' own convenience constructors, with empty and non-empty payloads
                    if isinstance(e, iteration.Engine):
                        rows = [] if (len(results[t]) % 3 == 0) else [{a: len(results[t])}]
                        name = e.make_leaf({a}, iteration.RowSequence(rows), name_prefix=prefix).name
                    else:
                        sel = e.make_leaf({a}, object(), name_prefix=prefix)
                        node = sel
                        while not isinstance(node, R.LeafRelation):
                            node = node.target
                        name = node.name
                elif route == "matx" and len(engines) > 1:
                    # materialize, move to another engine, materialize again - both without a name:
                    # two requests, the second one made below an existing materialization
                    m1 = bases[ei].materialized(name_prefix=prefix)
                    node = m1
                    while not isinstance(node, R.Materialization):
                        node = node.target
                    results[t].append((node.name, prefix, ei, "matx1"))
                    ej = (ei + 1 + len(results[t])) % len(engines)
                    if ej == ei:
                        ej = (ei + 1) % len(engines)
                    prefix = prefix + "2"
                    m2 = m1.transferred_to(engines[ej]).materialized(name_prefix=prefix)
                    node = m2
                    while not isinstance(node, R.Materialization):
                        node = node.target
                    name = node.name
                    ei = ej
                    if len(results[t]) % 2 == 0:
                        # ... and once more from the same first materialization (another unnamed
                        # materialization of a transfer of the same named source)
                        results[t].append((name, prefix, ei, "matx2"))
                        m3 = m1.transferred_to(engines[ej]).materialized(name_prefix=prefix)
                        node = m3
                        while not isinstance(node, R.Materialization):
                            node = node.target
                        name = node.name
                elif route == "leaf" or route == "matx":
                    # (every third one carries query parameters, which must not change how it is named)
                    extra = {"parameters": {"k": len(results[t])}} if len(results[t]) % 3 == 0 else {}
                    name = R.LeafRelation(e, frozenset({a}), iteration.RowSequence([]), name="", name_prefix=prefix, **extra).name
                else:
                    m = bases[ei].materialized(name_prefix=prefix)
                    node = m
                    while not isinstance(node, R.Materialization):
                        node = node.target
                    name = node.name
                results[t].append((name, prefix, ei, route))
        except Exception as exc:  # noqa: BLE001
            errors.append(repr(exc))

    threads = [threading.Thread(target=work, args=(t,)) for t in range(nthreads)]
    for th in threads:
        th.start()
    for th in threads:
        th.join(timeout=120)
    alive = [th for th in threads if th.is_alive()]
    return engines, results, errors, alive


def counter_field(name, prefix):
    rest = name[len(prefix) + 1 :] if name.startswith(prefix + "_") else None
    if rest is None:
        return None
    return rest.split("_", 1)[0]


def run_shard(seed, wid, nworkers, tier):
    out = {"counters": {}, "violations": [], "evaluations": 0, "sigs": [], "extra": {}}
    c = out["counters"]
    rng = random.Random(f"{seed}:{wid}")
    nthreads = 8 if tier == "quick" else 16
    rounds = 40 if tier == "quick" else 400
    old = sys.getswitchinterval()
    sys.setswitchinterval(1e-6)
    tool = install_yield_injector(rng.random())
    all_names: dict = {}
    try:
        for rnd in range(rounds):
            with _rec["lock"]:
                _rec["names"].clear()
            nreq = rng.choice([150, 300])
            # a host program (or its test framework) that re-seeds the global generator to a fixed
            # value before each batch of work: names must not depend on it
            random.seed(20240229)
            c["global_reseeds"] = c.get("global_reseeds", 0) + 1
            engines, results, errors, alive = one_round(rng, nthreads, nreq)
            c["rounds"] = c.get("rounds", 0) + 1
            if alive:
                out["violations"].append({"kind": "INCONCLUSIVE-thread-stuck", "detail": f"round {rnd}: {len(alive)} threads did not finish"})
                break
            for e in errors:
                out["violations"].append({"kind": "request_raised", "detail": e})
            flat = [x for r in results for x in r]
            with _rec["lock"]:
                recorded = list(_rec["names"])
            c["names_recorded"] = c.get("names_recorded", 0) + len(recorded)
            out["evaluations"] += len(flat)
            # every name handed to a caller was seen by the monitor
            if len(recorded) < len(flat):
                out["violations"].append({"kind": "MONITOR-ERROR", "detail": f"round {rnd}: {len(flat)} requests but {len(recorded)} recorded"})
            seen: dict = {}
            for name, prefix, ei, route in flat:
                if not name.startswith(prefix):
                    out["violations"].append({"kind": "name_without_requested_prefix", "detail": f"{name!r} requested prefix {prefix!r} via {route}"})
                if name in seen or name in all_names:
                    other = seen.get(name) or all_names.get(name)
                    out["violations"].append({"kind": "duplicate_name", "detail": f"{name!r} handed out twice: {other} and {(ei, route, rnd)} (round {rnd}, {nthreads} threads, {len(engines)} engines)"})
                seen[name] = (ei, route, rnd)
            all_names.update(seen)
            # measured interleavings: same counter field on the same engine
            fields: dict = {}
            inter = 0
            for name, prefix, eid, tid in recorded:
                f = counter_field(name, prefix)
                k = (eid, f)
                if k in fields and fields[k] != tid:
                    inter += 1
                fields.setdefault(k, tid)
            c["observed_interleavings"] = c.get("observed_interleavings", 0) + inter
            routes = "".join(sorted({r[3][0] for r in flat}))
            if inter:
                out["sigs"].append(f"{nthreads}t{len(engines)}e:{min(inter // 10, 9)}:{routes}:{nreq}")
    finally:
        remove_yield_injector(tool)
        sys.setswitchinterval(old)
    c["injected_yields"] = _rec["yields"]
    c["cloned_engines"] = _rec.get("cloned", 0)
    c["distinct_names_total"] = len(all_names)
    out["sample"] = {"threads": nthreads, "rounds": c.get("rounds", 0), "names": len(all_names), "observed_interleavings": c.get("observed_interleavings", 0), "example_names": list(all_names)[:3]}
    out["extra"] = {"threads_per_round": nthreads}
    return out
