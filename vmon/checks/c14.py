"""C14 - every reachable tree is engine-consistent and structurally well-formed."""
from __future__ import annotations

import itertools

from .. import bootstrap, exprs, gen, model
from ..common import exc_str, short
from ..dbx import DB, BuildFailure, Builder, make_engines, opt_kwargs
from ..monitors import structure
from ..tags import T
from . import c03

bootstrap.ensure()

ID = "C14"
LEVEL = "exploration"
TECHNIQUE = "runtime monitoring: node-local structural invariant walker on every relation any factory call returns"
RULE = (
    "seeded random base trees over a SQL engine and two iteration engines (as in C03); on each, a final operation "
    "whose column expression is an engine-restricted function (supported by sql.Engine only, iteration.Engine only, "
    "both, or neither) or a plain one is requested with every combination of preferred engine x backtrack x transfer "
    "x require_preferred_engine, plus the documented no-op calls (projection onto all columns, empty sort, transfer "
    "to the current engine) on every intermediate relation.  Every relation any call returns is walked node by node: "
    "unary node engine == operand engine; binary operands share an engine; Transfer never connects an engine to "
    "itself; no other marker changes engine; Join nodes carry resolved common columns that are key columns of both "
    "operands; Identity / PartialJoin / IgnoreOne never appear as nodes; every expression is supported by the engine "
    "of the node holding it; no-op calls return the receiver itself.  A call may instead raise EngineError or "
    "ColumnError.  Non-trivial = a restricted expression or a transfer/backtrack was involved; distinct = (operation "
    "kind, restriction, flags, outcome, base skeleton tail)."
    "  The restricted call may be nested in (or wrap) functions that declare support everywhere, and its portable "
    "look-alike (an expression that compares equal) may be requested first in every engine. "
    "  40 % of the join requests issued through the operation object carry explicit min_columns = max_columns drawn at random: if an operand lacks one of them the call must raise, otherwise the node must carry exactly them. "
    "  Some joins carry only min_columns, possibly naming a non-key column that both operands have. "
)
ASSUMPTIONS = [
    "well-formedness is judged node-locally by vmon/monitors/structure.py against the documented invariants",
    "an expression supported by exactly one of the engines involved is not ill-formed by itself: the call may raise "
    "EngineError or return a tree that satisfies the invariants",
]
MIN_OBS = {"trees_walked": 3000, "c14_nodes_walked": 20000, "restricted_requests": 1000, "engine_errors": 100, "noop_calls_checked": 1000, "restricted_trees_returned": 300}
CASE_TIMEOUT = 120
RESTRICTIONS = [None, ["sql"], ["it"], ["sql", "it"], []]


def budget(tier):
    if tier == "quick":
        return {"cases": 12000, "workers": 8, "watchdog_s": 1800}
    return {"cases": 480000, "workers": 16, "watchdog_s": 3600, "budget_s": 600}


def gen_case(rng, tier):
    case = c03.gen_case(rng, tier, custom_final=False)
    cols = case["cols"]
    restr = rng.choice(RESTRICTIONS)
    f = case["final"]
    if restr is not None and cols:
        kind = rng.choice(["calc", "sel", "sort", "join", "join"])
        a, b2 = rng.choice(cols), rng.choice(cols)
        # 30%: the restricted call is nested in a function that declares support for every engine
        # (explicitly or by default): support is a property of the whole expression tree
        nested = rng.random() < 0.3
        everywhere = ["sql", "it"]
        inner = ["rfn", "neg", [["ref", a]], restr]
        if restr and rng.random() < 0.3:
            # a function that every engine has registered under that name, restricted by the expression
            inner = ["rfn", "both", [["ref", a]], restr]
        if kind == "calc":
            free = [x for x in "efg" if x not in cols]
            if free:
                e = ["rfn", "add", [["ref", a], ["ref", b2]], restr] if inner[1] != "both" else inner
                if nested:
                    e = rng.choice([["rfn", "add", [inner, ["ref", b2]], everywhere], ["sub", ["ref", b2], inner]])
                f = {"kind": "calc", "node": ["calc", ["leaf", "__T__"], free[0], e, None]}
        elif kind == "sel":
            p = ["rcmp", "le", ["ref", a], ["ref", b2], restr] if inner[1] != "both" else ["cmp", "le", inner, ["ref", b2]]
            if nested:
                p = rng.choice([["rcmp", "le", inner, ["ref", b2], everywhere], ["cmp", "ge", ["ref", b2], inner]])
            f = {"kind": "sel", "node": ["sel", ["leaf", "__T__"], p, None]}
        elif kind == "sort":
            e = ["rfn", "sub", [inner, ["lit", 1]], everywhere] if nested else inner
            f = {"kind": "sort", "node": ["sort", ["leaf", "__T__"], [[e, True]], None]}
        elif f["kind"] == "join":
            base_p = ["rcmp", "ge", ["ref", a], ["lit", 0], restr]
            # also predicates that fold to True as a whole but still hold the restricted function:
            # the join node keeps the predicate object, so it must still be supported
            f = dict(f, pred=rng.choice([
                base_p,
                ["or", [base_p, ["plit", True]], "ctor"],
                ["not", ["and", [base_p, ["plit", False]], "ctor"]],
                ["or", [["plit", True], base_p], "factory"],
            ]))
        case["final"] = f
    case["restriction"] = restr
    if case["final"]["kind"] == "join" and rng.random() < 0.4:
        # explicit, already resolved equality columns drawn at random: either operand may lack one
        # (then the call has to raise ColumnError), otherwise the join node has to carry exactly them
        case["final"] = dict(case["final"], minmax=rng.sample("abcd", rng.randint(1, 2)))
        if rng.random() < 0.4:
            # only a lower bound (min_columns), possibly naming a non-key column: the resolved
            # equality columns are still key columns of both operands, or the call raises
            case["final"]["minonly"] = True
            case["final"]["minmax"] = rng.sample("abcdxy", rng.randint(1, 2))
            nonkey = [x for x in case["cols"] if x in "xy"]
            if nonkey and rng.random() < 0.7:
                # a fixed operand that shares a NON-key column with the target, named as a required
                # equality column (structure only: C14 does not evaluate these trees)
                nk = rng.choice(nonkey)
                fcols = sorted({nk} | set(rng.sample([x for x in case["cols"] if x not in "xy"] or ["a"], 1)))
                case["leaves"]["LX"] = {"engine": case["final"]["fixed_engine"], "cols": fcols, "rows": [[1] * len(fcols), [2] * len(fcols)], "kind": "normal", "min": 2, "max": 2}
                case["final"]["fixed"] = ["leaf", "LX"]
                case["final"]["pred"] = None
                case["final"]["minmax"] = [nk] + ([fcols[0]] if rng.random() < 0.5 and fcols[0] != nk else [])
    case["twin_first"] = rng.random() < 0.3
    if rng.random() < 0.08:
        # a join identity that travelled through one or two transfers, joined to a relation that
        # lives in any of the engines (the join-identity short-cut meets backtracking)
        A, B, C3 = rng.sample(c03.ENG, 3)
        case["leaves"]["LI"] = {"engine": A, "cols": [], "rows": [[]], "kind": "identity"}
        prog = ["xfer", ["leaf", "LI"], B]
        if rng.random() < 0.4:
            prog = ["xfer", prog, C3]
        fe = rng.choice(c03.ENG)
        case["leaves"]["LF"] = {"engine": fe, "cols": ["a"], "rows": [[1], [2]], "kind": "normal", "min": 2, "max": 2}
        case.update(prog=prog, cols=[], engine=prog[2], restriction=None,
                    final={"kind": "join", "fixed": ["leaf", "LF"], "pred": None, "fixed_engine": fe, "is_lhs": rng.random() < 0.3})
    return case


def strip_restrictions(node):
    """The same AST with engine-restricted functions replaced by their portable look-alikes."""
    if not isinstance(node, list):
        return node
    if node and node[0] == "rfn" and node[1] in ("neg", "add", "sub", "mul"):
        args = [strip_restrictions(a) for a in node[2]]
        return ["neg", args[0]] if node[1] == "neg" else [node[1], args[0], args[1]]
    if node and node[0] == "rcmp":
        return ["cmp", node[1], strip_restrictions(node[2]), strip_restrictions(node[3])]
    return [strip_restrictions(x) for x in node]


def run_case(case):
    import lsst.daf.relation as R

    out = {"counters": {}, "violations": [], "sigs": []}
    c = out["counters"]
    f = case["final"]
    restr = case.get("restriction")
    restricted = bool(exprs.restricted_kinds(f.get("node") or f.get("pred") or []))
    db = DB(shim=True)
    try:
        engines = make_engines(c03.ENG)
        b = Builder(case["leaves"], engines, db)
        try:
            base = b.build(case["prog"])
            if f["kind"] == "join":
                b.build(f["fixed"])
        except BuildFailure as bf:
            out["skip"] = "base_rejected"
            if not isinstance(bf.exc, R.RelationalAlgebraError):
                out["violations"].append({"kind": "undocumented_exception_at_construction", "detail": f"{exc_str(bf.exc)} at {model.show(bf.prog)}"})
            return out

        def walk(rel, what):
            c["trees_walked"] = c.get("trees_walked", 0) + 1
            for kind, detail in structure.check_c14(rel, c):
                out["violations"].append({"kind": kind, "detail": f"{what}: {detail} in {short(rel, 300)}"})

        # every intermediate relation + documented no-ops on it
        for sub, rel in b.nodes:
            walk(rel, model.show(sub))
            for name, call in (
                ("projection onto all columns", lambda r, kw: r.with_only_columns(set(r.columns), **kw)),
                ("empty sort", lambda r, kw: r.sorted([], **kw)),
                ("transfer to the current engine", lambda r, kw: r.transferred_to(r.engine)),
            ):
                for opt in (None, {"pe": "sql", "bt": True, "tr": True, "rq": False}, {"pe": "it2", "bt": True, "tr": False, "rq": True}):
                    try:
                        res = call(rel, opt_kwargs(opt, engines))
                    except Exception as exc:  # noqa: BLE001
                        out["violations"].append({"kind": "noop_call_raised", "detail": f"{name} on {model.show(sub)} with {opt}: {exc_str(exc)}"})
                        continue
                    c["noop_calls_checked"] = c.get("noop_calls_checked", 0) + 1
                    if res is not rel:
                        out["violations"].append({"kind": "noop_call_returned_new_object", "detail": f"{name} on {model.show(sub)} with {opt}: {short(res)} is not {short(rel)}"})
        if restricted and case.get("twin_first") and f["kind"] != "join":
            # the same request with the restriction left out (an expression that compares equal:
            # equality ignores supporting_engine_types) is issued first, in every engine the
            # restricted one may be tried in; support is a property of the object, not of its looks
            twin = dict(case, final=dict(f, node=strip_restrictions(f["node"])))
            for opt in (None, {"pe": "sql", "bt": True, "tr": True, "rq": False}, {"pe": "it", "bt": True, "tr": True, "rq": False}, {"pe": "it2", "bt": True, "tr": True, "rq": False}):
                try:
                    c03.apply_final(twin, base, b, engines, opt)
                    c["portable_twin_requests"] = c.get("portable_twin_requests", 0) + 1
                except R.RelationalAlgebraError:
                    pass
        label = model.show(c03.final_prog(case, None))
        if f["kind"] == "join":
            combos = [None] + [{"pe": f["fixed_engine"], "bt": bt, "tr": tr, "rq": False} for bt in (True, False) for tr in (False, True)]
        else:
            combos = [None] + [{"pe": pe, "bt": bt, "tr": tr, "rq": rq} for pe, bt, tr, rq in itertools.product(c03.ENG, (True, False), (False, True), (False, True))]
        explicit_join = []
        if f["kind"] == "join":
            # the operation-object route with an explicit preferred engine (any of the three)
            explicit_join = [{"pe": pe, "bt": bt, "tr": tr, "rq": rq, "explicit": True} for pe, bt, tr, rq in itertools.product(c03.ENG, (True, False), (False, True), (False, True))]
        for opt in combos + explicit_join:
            if restricted:
                c["restricted_requests"] = c.get("restricted_requests", 0) + 1
            try:
                if opt and opt.get("explicit"):
                    fixed_rel = b.build(f["fixed"])
                    pj = b.plib(f["pred"]) if f["pred"] is not None else R.Predicate.literal(True)
                    if f.get("minmax"):
                        from ..tags import T

                        cc = frozenset(T(x) for x in f["minmax"])
                        jop = R.Join(pj, min_columns=cc) if f.get("minonly") else R.Join(pj, min_columns=cc, max_columns=cc)
                        c["explicit_common_column_requests"] = c.get("explicit_common_column_requests", 0) + 1
                    else:
                        jop = R.Join(pj)
                    res = jop.partial(fixed_rel, is_lhs=bool(f.get("is_lhs"))).apply(base, **opt_kwargs({k: v for k, v in opt.items() if k != "explicit"}, engines))
                    if f.get("minmax"):
                        lacking = [x for x in f["minmax"] if T(x) not in base.columns or T(x) not in fixed_rel.columns]
                        if lacking and not (base.is_join_identity or fixed_rel.is_join_identity):
                            out["violations"].append({"kind": "join_on_missing_common_column_returned_a_tree", "detail": f"{label} with {opt}: Join(min_columns=max_columns={sorted(f['minmax'])}) although {lacking} is not a column of both operands; returned {short(res, 300)}"})
                else:
                    res = c03.apply_final(case, base, b, engines, opt)
            except (R.EngineError, R.ColumnError):
                c["engine_errors"] = c.get("engine_errors", 0) + 1
                outcome = "raised"
            except R.RelationalAlgebraError as exc:
                if "will not preserve row order" in str(exc):
                    outcome = "order_refused"
                else:
                    out["violations"].append({"kind": "undocumented_exception", "detail": f"{label} with {opt}: {exc_str(exc)}"})
                    outcome = "other"
            except Exception as exc:  # noqa: BLE001
                out["violations"].append({"kind": "undocumented_exception", "detail": f"{label} with {opt}: {exc_str(exc)}"})
                outcome = "other"
            else:
                walk(res, f"{label} with {opt}")
                outcome = "returned"
                if restricted:
                    c["restricted_trees_returned"] = c.get("restricted_trees_returned", 0) + 1
            if restricted or (opt and opt["pe"] != case["engine"]):
                o = opt or {}
                out["sigs"].append(f"{f['kind']}:{'/'.join(restr) if restr is not None else 'plain'}:{o.get('pe')}{int(o.get('bt', 1))}{int(o.get('tr', 0))}{int(o.get('rq', 0))}:{outcome}:{case['engine']}:{gen.op_signature(case['prog'])[-3:]}")
        if out["sigs"]:
            out["sample"] = {"base": model.show(case["prog"]), "operation": f["kind"], "restriction": restr, "base_tree": short(base, 200)}
        out["evaluations"] = len(combos)
        return out
    finally:
        db.close()
