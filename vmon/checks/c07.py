"""C07 - Processor evaluates multi-engine trees faithfully and only annotates payloads."""
from __future__ import annotations

from .. import bootstrap, gen, interp, model, multi
from ..common import exc_str, rewrite_counters, short
from ..dbx import DB, BuildFailure, Builder, VProcessor, make_engines

bootstrap.ensure()

ID = "C07"
LEVEL = "exploration"
TECHNIQUE = "runtime monitoring: real Processor with logged hook calls, payload census of the input tree, reference model"
RULE = (
    "seeded random programs spanning a SQL engine and two iteration engines (transfers at random positions, "
    "materializations in every engine incl. directly after a transfer and doubled, chains with doomed branches, "
    "joins in SQL, shared sub-trees); each is processed 1-3 times by a real Processor (SQL->iteration runs the "
    "compiled query on SQLite, iteration->SQL creates a table) and the result executed in its final engine and "
    "compared with the reference model (multiset; ordered list for all-iteration trees).  Monitors: payload census "
    "of the input tree before/after (only Materialization nodes may gain a payload, no node may lose or change one), "
    "columns/engine of the returned tree, and every transfer/materialize hook call is checked: its source must be "
    "evaluable by its own engine (no payload-less Transfer from a foreign engine / payload-less SQL Materialization "
    "reachable without crossing a payload) and must not be statically empty or a join identity.  Non-trivial = the "
    "tree has >= 1 transfer or materialization and >= 1 hook call; distinct = program skeleton x hook-call pattern."
    "  For half of the cases a further selection / calculation is then requested ON THE PROCESSED TREE with a random preferred engine, processed and executed again: the rows must be the model's rows of the whole sequence. "
    "  In 30 % of the cases the first process() call is one in which the k-th hook call fails (injected fault): only materializations completed before the failure may have gained payloads, and the passes that follow must still yield the model's rows. "
    "  15 % of the cases chain the tree with a second build of the same program (equal but distinct transfer / materialization objects with the same names over the same leaves). "
    "  3 % directed cases: a materialized chain of a SQL leaf and an empty transfer, joined to a left- or right-nested join that reads the same leaf, processed three times. "
)
ASSUMPTIONS = [
    "reference model vmon/model.py; SQLite + SQLAlchemy execute the SQL parts; grammar shim as in C02",
    "non-deterministic-slice and key-functional-dependency preconditions as in C01/C02 (discarded and counted)",
    "programs refused at construction with the documented row-order-loss error are legitimate rejections",
]
MIN_OBS = {"faulted_process_calls": 300, "processed_compared": 300, "hook_calls_checked": 300, "materialize_hook_calls": 50, "transfer_hook_calls": 200, "repeat_processed": 100}
CASE_TIMEOUT = 60


def budget(tier):
    if tier == "quick":
        return {"cases": 40000, "workers": 8, "watchdog_s": 1800}
    return {"cases": 1600000, "workers": 16, "watchdog_s": 3600, "budget_s": 600}


def gen_case(rng, tier):
    cfg = gen.Cfg(
        engines=("sql", "it", "it2"),
        ops=("calc", "proj", "sel", "dedup", "sort", "slice", "chain", "join", "mat", "mark", "cap", "rev"),
        weights={"mat": 1.6, "chain": 1.2, "sort": 0.7, "mark": 0.6, "cap": 0.4, "rev": 0.4},
        max_depth=2 if tier == "quick" or rng.random() < 0.6 else 3,
        xfer_prob=0.28,
        raw_leaves=False,
        sort_then_slice_prob=0.4,
    )
    g = gen.Gen(rng, cfg)
    if rng.random() < 0.02:
        # directed: a join built from an explicit Join operation whose resolved equality columns
        # include a NON-key column both operands have, with an operand behind a transfer or a
        # materialization (so that the Processor has to rebuild the join)
        key, nk = rng.choice("abc"), rng.choice("xy")
        e1, e2 = ("sql", rng.choice(["it", "it2"])) if rng.random() < 0.7 else (rng.choice(["it", "it2"]), "sql")
        L1 = g.leaf("sql", want_cols=[key, nk], allow_special=False)
        L2 = g.leaf(e2 if e1 == "sql" else "sql", want_cols=[key, nk], allow_special=False)
        if L1[1] == L2[1] == frozenset({key, nk}):
            lhs = L1[0] if rng.random() < 0.6 else ["mat", L1[0], "MJ"]
            rhs = ["xfer", L2[0], "sql"] if L2[2] != "sql" else ["mat", L2[0], "MK"]
            if rng.random() < 0.3:
                rhs = ["sel", rhs, ["cmp", "ge", ["ref", key], ["lit", -2]], None]
            j = ["join", lhs, rhs, None, {"minmax": [key, nk]}] if rng.random() < 0.5 else ["join", rhs, lhs, None, {"minmax": [key, nk]}]
            case = gen.case_from(g, (j, frozenset({key, nk}), "sql"))
            case["repeats"] = rng.choice([1, 2])
            case["directed"] = "explicit_join_columns_through_processor"
            return case
    if rng.random() < 0.03:
        # directed: a materialized chain of a SQL leaf T and an empty transfer (the Processor prunes the
        # empty branch: the materialization ends up reading T's own table), joined to an operand that
        # reads T as well - left- or right-nested - and processed several times
        g.cfg.special_leaves = False
        T_ = g.leaf("sql", want_cols=sorted(rng.sample("abc", 2)), allow_special=False)
        tcols = sorted(T_[1])
        g.leaves["LD"] = {"engine": rng.choice(["it", "it2"]), "cols": tcols, "rows": [], "kind": "doomed"}
        U_ = g.leaf("sql", want_cols=[tcols[0]], allow_special=False)
        V_ = g.leaf("sql", want_cols=[tcols[-1]], allow_special=False)
        empty = ["xfer", ["leaf", "LD"], "sql"]
        m = ["mat", ["chain", T_[0], empty] if rng.random() < 0.5 else ["chain", empty, T_[0]], "MM"]
        inner = ["join", T_[0], V_[0], None, None] if rng.random() < 0.5 else ["join", V_[0], T_[0], None, None]
        nested = ["join", U_[0], inner, None, None] if rng.random() < 0.6 else ["join", inner, U_[0], None, None]
        root = ["join", nested, m, None, None] if rng.random() < 0.5 else ["join", m, nested, None, None]
        allc = frozenset(T_[1] | U_[1] | V_[1])
        if not any(c in "xyz" for c in allc):
            case = gen.case_from(g, (root, allc, "sql"))
            case["repeats"] = 3
            case["directed"] = "pruned_materialization_and_nested_join"
            return case
    case = gen.case_from(g, g.tree())
    case["repeats"] = rng.choice([1, 1, 2, 3])
    if rng.random() < 0.15:
        # the same sub-query builder called twice: two equal but distinct sub-trees (own transfer and
        # materialization objects with the same names over the same leaves) chained together
        case["rebuilt_twin"] = True
    if rng.random() < 0.3:
        # a first process() call in which the k-th hook call fails (an I/O error in user code)
        case["fault_at"] = rng.randint(1, 4)
    if rng.random() < 0.5:
        # keep building on the tree the Processor returned, then process again
        case["followup"] = {"pe": rng.choice(["sql", "it", "it2"]), "lit": rng.randint(-2, 2), "op": rng.choice(["gt", "le", "ne"]), "kind": rng.choice(["sel", "sel", "calc"])}
    return case


def payload_census(rel):
    """id(node) -> (type name, payload identity or None) for every node of the tree."""
    return {id(n): (type(n).__name__, None if n.payload is None else id(n.payload), n) for n in interp.walk(rel)}


def materializations_on_the_evaluation_path(rel):
    """Materialization nodes the Processor has to evaluate: reachable from the root without
    crossing a relation that already has a payload or a Transfer of a statically trivial relation
    (for those the Processor documents that it does not descend)."""
    import lsst.daf.relation as R

    out, stack, seen = [], [rel], set()
    while stack:
        n = stack.pop()
        if id(n) in seen or n.payload is not None:
            continue
        seen.add(id(n))
        if isinstance(n, R.Transfer) and (n.max_rows == 0 or n.is_join_identity):
            continue
        if isinstance(n, R.Materialization):
            out.append(n)
        stack.extend(interp.children(n))
    return out


def check_source(source, what):
    """Hook precondition: can ``source.engine`` evaluate ``source`` on its own?"""
    import lsst.daf.relation as R
    from lsst.daf.relation import iteration, sql

    problems = []
    if source.max_rows == 0:
        problems.append(f"{what} called on a statically empty source {short(source)}")
    if source.is_join_identity:
        problems.append(f"{what} called on a join identity {short(source)}")
    stack = [source]
    seen = set()
    while stack:
        n = stack.pop()
        if id(n) in seen:
            continue
        seen.add(id(n))
        if n.payload is not None:
            continue
        if isinstance(n, R.Transfer):
            native = isinstance(n.destination, iteration.Engine) and isinstance(n.target.engine, iteration.Engine)
            if not native:
                problems.append(f"{what} source contains a payload-less transfer {short(n)}")
            continue
        if isinstance(n, R.Materialization) and isinstance(n.engine, sql.Engine):
            problems.append(f"{what} source contains a payload-less SQL materialization {short(n)}")
            continue
        if n.engine is not source.engine and not (isinstance(n.engine, iteration.Engine) and isinstance(source.engine, iteration.Engine)):
            problems.append(f"{what} source reaches a node of engine {n.engine} without a transfer: {short(n)}")
            continue
        stack.extend(interp.children(n))
    return problems


def run_case(case):
    import lsst.daf.relation as R

    out = {"counters": {}, "violations": []}
    c = out["counters"]
    prog = case["prog"]
    used = multi.engines_in(prog, case["leaves"])
    m = model.Model(case["leaves"], sql_slices=True, key_dedup=True, strict_fragile=True, ordered_engines=("it", "it2"))
    try:
        want = m.eval(prog)
    except model.Skip as s:
        out["skip"] = s.reason
        return out
    db = DB(shim=True)
    try:
        engines = make_engines(("sql", "it", "it2"))
        b = Builder(case["leaves"], engines, db)
        try:
            rel = b.build(prog)
        except BuildFailure as f:
            if "will not preserve row order" in str(f.exc):
                out["skip"] = "refused_order_loss"
            else:
                out["violations"].append({"kind": "rejected_valid_program", "detail": f"{exc_str(f.exc)} at {model.show(f.prog)}"})
            return out
        if case.get("rebuilt_twin"):
            b2 = Builder(case["leaves"], engines, db)
            for name in case["leaves"]:
                k = repr(["leaf", name])
                if k in b.memo:
                    b2.memo[k] = b.memo[k]
            try:
                twin = b2.build(prog)
                both = rel.chain(twin)
            except (BuildFailure, R.RelationalAlgebraError):
                both = None
            if both is not None and twin is not rel:
                try:
                    want = m.eval(["chain", prog, prog])
                except model.Skip as s:
                    out["skip"] = s.reason
                    return out
                rel, prog = both, ["chain", prog, prog]
                c["rebuilt_twin_trees"] = 1
        before = payload_census(rel)
        before_str, before_repr = str(rel), repr(rel)
        needed_mats = materializations_on_the_evaluation_path(rel)
        pattern = []
        first_rows = None
        if case.get("fault_at"):
            from ..dbx import FaultyProcessor, InjectedFault

            fproc = FaultyProcessor(db, case["fault_at"])
            try:
                fproc.process(rel)
            except InjectedFault:
                c["faulted_process_calls"] = c.get("faulted_process_calls", 0) + 1
            except Exception as exc:  # noqa: BLE001
                if not multi.prune_order_loss(rel, exc):
                    out["violations"].append({"kind": "process_or_execute_raised", "detail": f"{exc_str(exc)} for {model.show(prog)} (pass with an injected hook failure)"})
                    return out
            for call in fproc.log:
                for p in check_source(call[1], call[0]):
                    out["violations"].append({"kind": f"{call[0]}_hook_precondition", "detail": f"{p} while processing {model.show(prog)} (pass with an injected hook failure)"})
            # the failed call may have left payloads on materializations that were completed before
            # the failure - and nothing else; the passes below must still give the right rows
            after = payload_census(rel)
            if set(after) != set(before) or str(rel) != before_str or repr(rel) != before_repr:
                out["violations"].append({"kind": "input_tree_structure_changed", "detail": model.show(prog) + " (by a process() call that failed)"})
            for nid, (tname, pid, node) in after.items():
                old = before.get(nid)
                if old is not None and old[1] != pid and (old[1] is not None or not isinstance(node, R.Materialization)):
                    out["violations"].append({"kind": "payload_replaced" if old[1] is not None else "non_materialization_gained_payload", "detail": f"{tname} {short(node)} in {model.show(prog)} (by a process() call that failed)"})
            before = after
        for rep in range(case.get("repeats", 1)):
            proc = VProcessor(db)
            try:
                rows, processed, _ = multi.evaluate(rel, db, proc)
            except Exception as exc:  # noqa: BLE001
                out["violations"].append({"kind": "process_or_execute_raised", "mech": "KF-reapply-order-loss" if multi.prune_order_loss(rel, exc) else None, "detail": f"{exc_str(exc)} for {model.show(prog)} tree {short(rel, 400)} (pass {rep + 1})"})
                return out
            c["processed_compared"] = c.get("processed_compared", 0) + 1
            if rep > 0:
                c["repeat_processed"] = c.get("repeat_processed", 0) + 1
            # --- hook calls
            for call in proc.log:
                c["hook_calls_checked"] = c.get("hook_calls_checked", 0) + 1
                c[f"{call[0]}_hook_calls"] = c.get(f"{call[0]}_hook_calls", 0) + 1
                for p in check_source(call[1], call[0]):
                    out["violations"].append({"kind": f"{call[0]}_hook_precondition", "detail": f"{p} while processing {model.show(prog)}"})
            pattern.append("".join(x[0][0] for x in proc.log))
            if rep > 0 and any(x[0] == "materialize" for x in proc.log):
                # every materialization got its payload in the first pass
                out["violations"].append({"kind": "materialize_hook_called_again", "detail": f"pass {rep + 1} of {model.show(prog)} called materialize again"})
            # --- returned tree
            if processed.engine is not rel.engine:
                out["violations"].append({"kind": "processed_engine_differs", "detail": f"{processed.engine} vs {rel.engine} for {model.show(prog)}"})
            if set(processed.columns) != set(rel.columns):
                out["violations"].append({"kind": "processed_columns_differ", "detail": model.show(prog)})
            # --- rows
            ordered = want.det and not any(e.startswith("sql") for e in used)
            same = (rows == want.rows) if ordered else (model.canon(rows) == model.canon(want.rows))
            if ordered:
                c["ordered_comparisons"] = c.get("ordered_comparisons", 0) + 1
            if not same:
                out["violations"].append({
                    "kind": "rows_differ",
                    "detail": f"{model.show(prog)} tree {short(rel, 300)} processed {short(processed, 300)} got {short(model.canon(rows), 300)} want {short(model.canon(want.rows), 300)} (pass {rep + 1})",
                })
                break
            if first_rows is not None and model.canon(rows) != model.canon(first_rows):
                out["violations"].append({"kind": "repeat_differs", "detail": model.show(prog)})
            first_rows = rows
            # --- input tree: only materializations may gain payloads
            after = payload_census(rel)
            if set(after) != set(before) or str(rel) != before_str or repr(rel) != before_repr:
                out["violations"].append({"kind": "input_tree_structure_changed", "detail": model.show(prog)})
            for nid, (tname, pid, node) in after.items():
                old = before.get(nid)
                if old is None:
                    continue
                if old[1] != pid:
                    if old[1] is not None:
                        out["violations"].append({"kind": "payload_replaced", "detail": f"{tname} {short(node)} in {model.show(prog)}"})
                    elif not isinstance(node, R.Materialization):
                        out["violations"].append({"kind": "non_materialization_gained_payload", "detail": f"{tname} {short(node)} in {model.show(prog)}"})
                    else:
                        c["materializations_annotated"] = c.get("materializations_annotated", 0) + 1
            before = after
            # documented: on return every Materialization of the tree passed in has a payload
            for node in needed_mats:
                if node.payload is None:
                    out["violations"].append({"kind": "materialization_left_without_payload", "detail": f"{short(node)} in {model.show(prog)} after pass {rep + 1}"})
        # ---- a further operation requested on the PROCESSED tree (its transfers and materializations
        # carry payloads now), inserted upstream where the library can, then processed again: the rows
        # must be those of the whole sequence - nothing cached for the old tree may be served for the new
        fu = case.get("followup")
        if fu and not out["violations"] and rel.columns:
            from ..exprs import elib, plib
            from ..tags import T

            col = sorted(t.qualified_name for t in rel.columns)[0]
            free = [x for x in "efg" if x not in {t.qualified_name for t in rel.columns}]
            if fu["kind"] == "calc" and free:
                node = ["calc", prog, free[0], ["add", ["ref", col], ["lit", fu["lit"]]], None]
            else:
                node = ["sel", prog, ["cmp", fu["op"], ["ref", col], ["lit", fu["lit"]]], None]
            try:
                want2 = m.eval(node)
            except (model.Skip, model.ModelError):
                want2 = None
            if want2 is not None:
                try:
                    if node[0] == "calc":
                        rel2 = processed.with_calculated_column(T(node[2]), elib(node[3]), preferred_engine=engines[fu["pe"]])
                    else:
                        rel2 = processed.with_rows_satisfying(plib(node[2]), preferred_engine=engines[fu["pe"]])
                    rows2, processed2, _ = multi.evaluate(rel2, db)
                except R.RelationalAlgebraError:
                    c["followup_refused"] = c.get("followup_refused", 0) + 1
                except Exception as exc:  # noqa: BLE001
                    if not multi.prune_order_loss(processed, exc):
                        out["violations"].append({"kind": "followup_on_processed_tree_raised", "detail": f"{model.show(node)} requested on the processed tree with preferred engine {fu['pe']}: {exc_str(exc)}"})
                else:
                    c["followups_on_processed_tree_compared"] = c.get("followups_on_processed_tree_compared", 0) + 1
                    if model.canon(rows2) != model.canon(want2.rows):
                        out["violations"].append({"kind": "rows_differ_after_building_on_processed_tree", "detail": f"{model.show(node)} requested on the processed tree with preferred engine {fu['pe']}: tree {short(rel2, 300)} got {short(model.canon(rows2), 250)} want {short(model.canon(want2.rows), 250)}"})
        sig_prog = gen.op_signature(prog)
        if ("x" in sig_prog or "m" in sig_prog) and any(pattern):
            out["sig"] = sig_prog + "|" + "/".join(pattern)
            out["sample"] = {"program": model.show(prog), "tree": short(rel, 240), "hook_calls": pattern, "rows": len(want.rows)}
        c.update({k: 1 for k in rewrite_counters(prog, rel)})
        return out
    finally:
        db.close()
