"""C13 - predicate folding, conjunction flattening and required-column sets are sound."""
from __future__ import annotations

import itertools

from .. import bootstrap, exprs, interp
from ..common import exc_str
from ..tags import T
from .c12 import depth, shape

bootstrap.ensure()

ID = "C13"
LEVEL = "exploration"
TECHNIQUE = "runtime monitoring: grid-exhaustive evaluation of folding, flattening and required-column declarations (all sub-expressions)"
RULE = (
    "seeded random predicates and scalar expressions (all node types of the portable set, AND/OR of arity 0-3 via "
    "factory and constructor, literals True/False at every depth, empty sequences and ranges), depth <= 3/4, over "
    "<= 3 columns; for each: as_trivial() in {True, False} must equal the value on every row of the grid [-2,2]^k; "
    "flatten_logical_and must return conjuncts whose AND equals the predicate on every row (or False only if it is "
    "false everywhere); Selection(p).predicate must be equivalent to p; columns_required must equal the set of "
    "referenced columns, evaluation on a row restricted to it must succeed with the same value (iteration engine "
    "callable and independent interpreter), and the set must be unchanged after later library calls.  Non-trivial = "
    "contains a logical operator, literal or container; distinct = operator-shape strings."
    "  The grid also holds 2**53+1 (where int and float arithmetic differ); 30 % of the numeric literals are floats "
    "or bools equal to the integer drawn; for half of the cases a look-alike (literals replaced by equal values of "
    "another type, hence an expression that compares and hashes equal) is put through the same library calls first. "
    "  Each predicate with >= 2 columns is also offered for commutation past a calculation that defines one of its columns (a refused move), after which its required-column set must be unchanged. "
)
ASSUMPTIONS = [
    "rows range over the grid ([-2,2] + {2**53+1})^k: equivalence of predicates is decided on that grid only",
    "direct evaluation by vmon/interp.py (independent of both engines) and by iteration.Engine.convert_predicate",
]
MIN_OBS = {"subexpression_required_columns_checked": 5000, "refused_commutes_issued": 300, "lookalike_handled_first": 1000, "trivial_true_or_false": 100, "flatten_false": 20, "flatten_lists": 300, "selection_checked": 300, "merged_selections_checked": 300, "restricted_rows_evaluated": 1000}
BIG = 2**53 + 1  # int and float arithmetic differ here: BIG + 1 != BIG + 1.0
GRID = list(range(-2, 3)) + [BIG]
COLS = ["a", "b", "c"]
_state: dict = {}


def setup(tier):
    from lsst.daf.relation import iteration

    _state["it"] = iteration.Engine(name="it")


def budget(tier):
    if tier == "quick":
        return {"cases": 100000, "workers": 8, "watchdog_s": 1800}
    return {"cases": 4000000, "workers": 16, "watchdog_s": 3600, "budget_s": 600}


def gen_lit_heavy(rng, cols, d):
    """Predicates dominated by literals and empty AND/OR so that folding fires."""
    if d <= 0 or rng.random() < 0.4:
        r = rng.random()
        if r < 0.5:
            return ["plit", rng.random() < 0.5]
        if r < 0.65:
            return [rng.choice(["and", "or"]), [], rng.choice(["ctor", "factory"])]
        return exprs.gen_p(rng, cols, 0)
    r = rng.random()
    if r < 0.25:
        return ["not", gen_lit_heavy(rng, cols, d - 1)]
    return [
        "and" if r < 0.7 else "or",
        [gen_lit_heavy(rng, cols, d - 1) for _ in range(rng.randint(0, 3))],
        rng.choice(["ctor", "factory"]),
    ]


def gen_case(rng, tier):
    exprs.LIT_KINDS = 0.3
    case = _gen_case(rng, tier)
    if rng.random() < 0.5:
        # a look-alike (literals replaced by numerically equal values of another type) that the
        # library is made to handle FIRST: nothing it remembers about one predicate may be served
        # for another one that merely compares equal
        twin = exprs.reflavour(case["ast"], rng)
        if twin != case["ast"] or repr(twin) != repr(case["ast"]):
            case["twin"] = twin
    return case


def _gen_case(rng, tier):
    d = rng.choice([1, 2, 3]) if tier == "quick" else rng.choice([2, 3, 4])
    k = rng.choice([1, 2, 2, 3])
    cols = COLS[:k]
    r = rng.random()
    if r < 0.15:
        return {"kind": "expr", "ast": exprs.gen_e(rng, cols, d), "k": k}
    other = gen_lit_heavy(rng, cols, rng.choice([0, 1, 2])) if rng.random() < 0.6 else exprs.gen_p(rng, cols, 1, wild_ranges=True)
    if r < 0.55:
        return {"kind": "pred", "ast": gen_lit_heavy(rng, cols, d), "k": k, "other": other}
    return {"kind": "pred", "ast": exprs.gen_p(rng, cols, d, wild_ranges=True), "k": k, "other": other}


def run_case(case):
    import lsst.daf.relation as R

    out = {"counters": {}, "violations": []}
    c = out["counters"]
    kind, ast, k = case["kind"], case["ast"], case["k"]
    tags = [T(x) for x in COLS[:k]]
    rows = [dict(zip(tags, vals)) for vals in itertools.product(GRID, repeat=k)]
    label = exprs.show_e(ast) if kind == "expr" else exprs.show_p(ast)
    ite = _state["it"]

    def viol(kind_, detail):
        out["violations"].append({"kind": kind_, "detail": f"{label}: {detail}"})

    if case.get("twin") is not None:
        try:
            tw = exprs.elib(case["twin"]) if kind == "expr" else exprs.plib(case["twin"])
            tw.columns_required  # noqa: B018
            (ite.convert_column_expression if kind == "expr" else ite.convert_predicate)(tw)
            if kind == "pred":
                tw.as_trivial()
                R.flatten_logical_and(tw)
                R.Selection(tw)
            c["lookalike_handled_first"] = 1
        except Exception as exc:  # noqa: BLE001
            viol("lookalike_raised", exc_str(exc))
    try:
        lib = exprs.elib(ast) if kind == "expr" else exprs.plib(ast)
    except Exception as exc:  # noqa: BLE001
        viol("construction_raised", exc_str(exc))
        return out
    ev = interp.eval_expr if kind == "expr" else interp.eval_pred
    truth = [ev(lib, r) for r in rows]
    direct = [exprs.ev(ast, {t.qualified_name: v for t, v in r.items()}) if kind == "expr" else exprs.pv(ast, {t.qualified_name: v for t, v in r.items()}) for r in rows]
    if ([int(x) for x in truth] != [int(x) for x in direct]) if kind == "pred" else (truth != direct):
        viol("ORACLE-SUSPECT", "AST evaluation and library-object interpreter disagree")
        return out

    # ---- required columns
    try:
        req = lib.columns_required
        req_copy = frozenset(req)
    except Exception as exc:  # noqa: BLE001
        viol("columns_required_raised", exc_str(exc))
        return out
    refs = interp.expr_refs(lib)
    if set(req) != refs:
        viol("columns_required_wrong", f"declared {sorted(map(str, req))} referenced {sorted(map(str, refs))}")
    else:
        f = ite.convert_column_expression(lib) if kind == "expr" else ite.convert_predicate(lib)
        for r, want in zip(rows, truth):
            rr = {t: r[t] for t in req}
            try:
                got_i = ev(lib, rr)
                got_e = f(rr)
            except Exception as exc:  # noqa: BLE001
                viol("restricted_row_raised", f"{exc_str(exc)} on {rr}")
                break
            c["restricted_rows_evaluated"] = c.get("restricted_rows_evaluated", 0) + 1
            if bool(got_i) != bool(want) or (kind == "expr" and (got_i != want or got_e != want)) or (kind == "pred" and bool(got_e) != bool(want)):
                viol("restricted_row_differs", f"on {rr}: {got_i}/{got_e} vs {want}")
                break

    if kind == "pred":
        # ---- folding
        try:
            triv = lib.as_trivial()
        except Exception as exc:  # noqa: BLE001
            viol("as_trivial_raised", exc_str(exc))
            triv = None
        if triv is True or triv is False:
            c["trivial_true_or_false"] = 1
            bad = [r for r, v in zip(rows, truth) if bool(v) != triv]
            if bad:
                viol("as_trivial_unsound", f"as_trivial()={triv} but row {bad[0]} evaluates to {not triv}")
        elif triv is not None:
            viol("as_trivial_bad_value", repr(triv))
        else:
            c["trivial_none"] = 1
        # ---- flattening
        try:
            flat = R.flatten_logical_and(lib)
        except Exception as exc:  # noqa: BLE001
            viol("flatten_raised", exc_str(exc))
            flat = None
        if flat is False:
            c["flatten_false"] = 1
            bad = [r for r, v in zip(rows, truth) if v]
            if bad:
                viol("flatten_false_unsound", f"reported False but true at {bad[0]}")
        elif flat is not None:
            c["flatten_lists"] = 1
            for r, v in zip(rows, truth):
                try:
                    got = all(interp.eval_pred(q, r) for q in flat)
                except Exception as exc:  # noqa: BLE001
                    viol("flatten_conjunct_unevaluable", exc_str(exc))
                    break
                if got != bool(v):
                    viol("flatten_not_equivalent", f"at {r}: AND(conjuncts)={got} predicate={bool(v)} conjuncts={[str(q) for q in flat]}")
                    break
        # ---- Selection stores an equivalent predicate
        try:
            sel = R.Selection(lib)
            stored = sel.predicate
            c["selection_checked"] = 1
            for r, v in zip(rows, truth):
                if bool(interp.eval_pred(stored, r)) != bool(v):
                    viol("selection_predicate_not_equivalent", f"at {r}: stored {stored} gives {not bool(v)}")
                    break
            sreq = sel.columns_required
            if not set(sreq) <= refs:
                viol("selection_columns_required_extra", f"{sorted(map(str, sreq))} vs referenced {sorted(map(str, refs))}")
            if not interp.expr_refs(stored) <= set(sreq):
                viol("selection_columns_required_insufficient", f"{sorted(map(str, sreq))}")
        except Exception as exc:  # noqa: BLE001
            viol("selection_construction_raised", exc_str(exc))
        # ---- merging two selections must store a predicate equivalent to their conjunction
        try:
            other_ast = case.get("other")
            if other_ast is not None:
                other = exprs.plib(other_ast)
                merged = R.Selection(lib).simplify(R.Selection(other))  # other applied first, then lib
                if merged is not None:
                    c["merged_selections_checked"] = c.get("merged_selections_checked", 0) + 1
                    for r, v in zip(rows, truth):
                        want_m = bool(v) and bool(interp.eval_pred(other, r))
                        if bool(interp.eval_pred(merged.predicate, r)) != want_m:
                            viol("merged_selection_predicate_not_equivalent", f"Selection({label}).simplify(Selection({exprs.show_p(other_ast)})) stores {merged.predicate}; differs at {r}")
                            break
        except Exception as exc:  # noqa: BLE001
            viol("selection_merge_raised", exc_str(exc))
        # ---- library use must not corrupt the (cached, shared) required-column set
        try:
            from lsst.daf.relation import iteration

            leaf = ite.make_leaf(set(tags), iteration.RowSequence(rows), name="grid")
            rel = leaf.with_rows_satisfying(lib)
            rel2 = rel.with_only_columns(set(req)) if set(req) != set(tags) else rel
            rel2.with_rows_satisfying(lib)
            R.Selection(lib).commute(rel) if isinstance(rel, R.UnaryOperationRelation) else None
            if len(req) >= 2:
                # commutation past an operation that *defines* one of the predicate's columns (its
                # target has some but not all of them): the move has to be refused, and refusing
                # must leave the predicate as it was
                by_name = sorted(req, key=str)
                made, src = by_name[0], by_name[1]
                leaf2 = ite.make_leaf(set(tags) - {made}, iteration.RowSequence([{t: v for t, v in r.items() if t != made} for r in rows[:3]]), name="grid2")
                rel3 = leaf2.with_calculated_column(made, R.ColumnExpression.reference(src))
                cm = R.Selection(lib).commute(rel3)
                c["refused_commutes_issued"] = c.get("refused_commutes_issued", 0) + (1 if cm.first is None else 0)
                rel3.with_rows_satisfying(lib)
        except Exception as exc:  # noqa: BLE001
            viol("use_raised", exc_str(exc))
    else:
        try:
            from lsst.daf.relation import iteration

            if req:
                leaf = ite.make_leaf(set(tags), iteration.RowSequence(rows), name="grid")
                rel = leaf.with_calculated_column(T("g"), lib)
                rel.sorted([R.SortTerm(lib)])
                rel.with_only_columns(set(req) | {T("g")})
        except Exception as exc:  # noqa: BLE001
            viol("use_raised", exc_str(exc))
    if frozenset(lib.columns_required) != req_copy:
        viol("columns_required_mutated", f"{sorted(map(str, req_copy))} -> {sorted(map(str, lib.columns_required))}")
    # every sub-expression, queried AFTER its parents were (cached sets are shared objects):
    # its declared required columns must still be exactly the columns it references
    for node in interp.subexpressions(lib):
        c["subexpression_required_columns_checked"] = c.get("subexpression_required_columns_checked", 0) + 1
        try:
            got = set(node.columns_required)
        except Exception as exc:  # noqa: BLE001
            viol("columns_required_raised", f"sub-expression {node}: {exc_str(exc)}")
            break
        want_refs = interp.expr_refs(node)
        if got != want_refs:
            viol("subexpression_columns_required_wrong", f"sub-expression {node} declares {sorted(map(str, got))} but references {sorted(map(str, want_refs))} (after its parent's set was computed)")
            break

    s = shape(ast)
    if any(x in s for x in ("and", "or", "not", "T", "F", "rng", "seq")) or depth(ast) >= 2:
        out["sig"] = s
        out["sample"] = {"kind": kind, "expression": label, "grid_rows": len(rows)}
    return out
