"""C17 - SQL conform is idempotent, content-preserving and keeps SELECT markers coherent."""
from __future__ import annotations

from .. import bootstrap, exprs, gen, interp, model
from ..common import exc_str, names_rows, short
from ..dbx import DB, BuildFailure, Builder, make_engines
from ..monitors import structure
from ..tags import T

bootstrap.ensure()

ID = "C17"
LEVEL = "exploration"
TECHNIQUE = "runtime monitoring: Select-marker coherence walker; raw-tree conform differential (interpreter + SQLite)"
RULE = (
    "seeded random SQL programs (as in C02) are built two ways: (1) through the factories - every intermediate "
    "relation r must satisfy engine.conform(r) is r, and every Select marker in every returned tree is walked: the "
    "unary nodes from target down to skip_to must be exactly [slice?, deduplication?, projection?, sort?] as recorded "
    "(a recorded projection onto all columns may be absent), skip_to must not itself be a managed operation, and "
    "is_compound must equal 'skip_to is a chain'; (2) as RAW trees assembled bottom-up with the dataclass constructors "
    "(bare LeafRelations, resolved Joins, no markers), then conformed: conform(conform(x)) is conform(x), the markers "
    "are walked as above, the conformed tree evaluates (independent interpreter) to the same ordered list as the raw "
    "tree, and its SQL, run on SQLite, returns the model's multiset.  Non-trivial = tree with >= 2 Select markers or "
    "any non-empty slot; distinct = program skeleton x route x slot pattern."
)
ASSUMPTIONS = [
    "interpreter vmon/interp.py; model vmon/model.py; SQLite executes conformed trees (non-deterministic slices discarded)",
    "raw trees whose conform raises the documented row-order-loss error are legitimate refusals",
]
MIN_OBS = {"select_markers_checked": 3000, "raw_trees_conformed": 300, "factory_relations_checked": 2000, "raw_rows_compared": 150, "markers_with_slots": 500}
CASE_TIMEOUT = 60


def budget(tier):
    if tier == "quick":
        return {"cases": 30000, "workers": 8, "watchdog_s": 1800}
    return {"cases": 1200000, "workers": 16, "watchdog_s": 3600, "budget_s": 600}


def directed_union_window(rng, g):
    """chain -> sort on plain columns -> slice -> projection that drops a sort column (optionally a
    further deduplication / selection): the window has to be cut in the sort's order."""
    cols = sorted(rng.sample("abcd", rng.randint(2, 3)))
    a = g.leaf("sql", want_cols=cols, allow_special=False)
    b2 = g.leaf("sql", want_cols=sorted(a[1]), allow_special=False)
    st = (["chain", a[0], b2[0]], a[1], "sql") if b2[1] == a[1] else a
    cl = sorted(st[1])
    terms = [[["ref", c], rng.random() < 0.5] for c in cl]  # total order, so the window is determined
    rng.shuffle(terms)
    st = (["sort", st[0], terms, None], st[1], "sql")
    start = rng.choice([0, 1, 2])
    st = (["slice", st[0], start, start + rng.choice([1, 2, 3])], st[1], "sql")
    keep = [c for c in cl if c != terms[0][0][1]] if rng.random() < 0.8 else cl[:1]
    st = (["proj", st[0], sorted(keep), None], frozenset(keep), "sql")
    if rng.random() < 0.3:
        st = g.unary(st, rng.choice(["sel", "dedup", "slice"])) or st
    return st


def gen_case(rng, tier):
    cfg = gen.Cfg(
        engines=("sql",),
        ops=("calc", "proj", "sel", "dedup", "sort", "slice", "chain", "join"),
        weights={"join": 1.3, "chain": 1.2, "proj": 1.5, "sort": 1.3, "slice": 1.3, "dedup": 1.3},
        max_depth=2 if tier == "quick" or rng.random() < 0.5 else 3,
        raw_leaves=False,
        sort_then_slice_prob=0.5,
    )
    g = gen.Gen(rng, cfg)
    if rng.random() < 0.08:
        state = gen.hidden_collision_join(g, rng, "sql")
        if state is not None:
            for _ in range(rng.randint(0, 2)):
                state = g.unary(state, g.pick_op(("calc", "proj", "sel", "dedup", "sort", "slice"))) or state
            return gen.case_from(g, state)
    if rng.random() < 0.04:
        return gen.case_from(g, directed_union_window(rng, g))
    if rng.random() < 0.03:
        # directed: stacked calculations (the second reads the first), a projection that hides the
        # first but keeps the second, a deduplication, a further projection: rows that differ only in
        # a hidden (calculated or original) column must survive as duplicates of the last projection
        cols = sorted(rng.sample("abc", 2))
        st = g.leaf("sql", want_cols=cols, allow_special=False)
        cl = sorted(st[1])
        src = rng.choice(cl)
        st = (["calc", st[0], "e", rng.choice([["neg", ["ref", src]], ["mul", ["ref", src], ["ref", src]], ["add", ["ref", src], ["lit", 1]]]), None], st[1] | {"e"}, "sql")
        st = (["calc", st[0], "f", rng.choice([["neg", ["ref", "e"]], ["mul", ["ref", "e"], ["lit", 0]], ["sub", ["ref", "e"], ["ref", src]]]), None], st[1] | {"f"}, "sql")
        keep = sorted({c for c in cl if c != src or rng.random() < 0.3} | {"f"} | ({"e"} if rng.random() < 0.2 else set()))
        st = (["proj", st[0], keep, None], frozenset(keep), "sql")
        st = (["dedup", st[0], None], st[1], "sql")
        keep2 = sorted(c for c in keep if c != "f" or rng.random() < 0.3) or keep[:1]
        st = (["proj", st[0], keep2, None], frozenset(keep2), "sql")
        if rng.random() < 0.3:
            st = g.unary(st, rng.choice(["dedup", "sel", "sort"])) or st
        return gen.case_from(g, st)
    if rng.random() < 0.03:
        # directed: sort on an expression over two columns -> projection dropping one of them ->
        # deduplication -> a further projection (the sort can then not be lifted into an outer query)
        cols = sorted(rng.sample("abcd", 3))
        st = g.leaf("sql", want_cols=cols, allow_special=False)
        if rng.random() < 0.4:
            other = g.leaf("sql", want_cols=sorted(st[1]), allow_special=False)
            if other[1] == st[1]:
                st = (["chain", st[0], other[0]], st[1], "sql")
        cl = sorted(st[1])
        c1, c2 = rng.sample(cl, 2)
        term = [[rng.choice(["add", "sub", "mul"]), ["ref", c1], ["ref", c2]], rng.random() < 0.5]
        st = (["sort", st[0], [term] + ([[["ref", rng.choice(cl)], True]] if rng.random() < 0.3 else []), None], st[1], "sql")
        keep = [c for c in cl if c != c2]
        st = (["proj", st[0], keep, None], frozenset(keep), "sql")
        st = (["dedup", st[0], None], st[1], "sql")
        keep2 = sorted(rng.sample(keep, rng.randint(1, len(keep) - 1))) if len(keep) > 1 else keep
        st = (["proj", st[0], keep2, None], frozenset(keep2), "sql")
        return gen.case_from(g, st)
    return gen.case_from(g, g.tree())


class RawBuilder:
    def __init__(self, leaves, engine, db):
        self.leaves, self.engine, self.db = leaves, engine, db
        self.memo = {}
        self.leaf_rows = {}

    def rows_of_leaf(self, leaf):
        return self.leaf_rows[leaf.name]

    def build(self, prog):
        import lsst.daf.relation as R

        key = repr(prog)
        if key in self.memo:
            return self.memo[key]
        op = prog[0]
        if op == "leaf":
            spec = self.leaves[prog[1]]
            tags = [T(c) for c in spec["cols"]]
            rows = [dict(zip(tags, r)) for r in spec["rows"]]
            self.leaf_rows["raw_" + prog[1]] = rows
            payload = self.db.make_table("raw_" + prog[1], tags, rows)
            rel = R.LeafRelation(self.engine, frozenset(tags), payload, name="raw_" + prog[1], min_rows=len(rows), max_rows=len(rows))
        elif op == "chain":
            lhs, rhs = self.build(prog[1]), self.build(prog[2])
            rel = R.BinaryOperationRelation(operation=R.Chain(), lhs=lhs, rhs=rhs, columns=lhs.columns)
        elif op == "join":
            lhs, rhs = self.build(prog[1]), self.build(prog[2])
            common = frozenset(t for t in lhs.columns & rhs.columns if t.is_key)
            p = exprs.plib(prog[3]) if prog[3] is not None else R.Predicate.literal(True)
            j = R.Join(p, min_columns=common, max_columns=common)
            rel = R.BinaryOperationRelation(operation=j, lhs=lhs, rhs=rhs, columns=frozenset(lhs.columns | rhs.columns))
        else:
            t = self.build(prog[1])
            if op == "calc":
                o = R.Calculation(T(prog[2]), exprs.elib(prog[3]))
            elif op == "proj":
                o = R.Projection(frozenset(T(x) for x in prog[2]))
            elif op == "sel":
                o = R.Selection(exprs.plib(prog[2]))
            elif op == "dedup":
                o = R.Deduplication()
            elif op == "sort":
                if not prog[2]:
                    self.memo[key] = t
                    return t
                o = R.Sort(tuple(R.SortTerm(exprs.elib(e), asc) for e, asc in prog[2]))
            elif op == "slice":
                o = R.Slice(prog[2], prog[3])
            else:
                raise AssertionError(prog)
            rel = R.UnaryOperationRelation(operation=o, target=t, columns=frozenset(o.applied_columns(t)))
        self.memo[key] = rel
        return rel


def run_case(case):
    import lsst.daf.relation as R
    from lsst.daf.relation import sql

    out = {"counters": {}, "violations": [], "sigs": []}
    c = out["counters"]
    prog = case["prog"]
    label = model.show(prog)
    db = DB(shim=True)
    try:
        engines = make_engines(("sql",))
        E = engines["sql"]
        # ---------------- (1) factory route
        b = Builder(case["leaves"], engines, db)
        rel = None
        try:
            rel = b.build(prog)
        except BuildFailure as f:
            if "will not preserve row order" not in str(f.exc):
                out["violations"].append({"kind": "rejected_valid_program", "detail": f"{exc_str(f.exc)} at {model.show(f.prog)}"})
                return out
            c["refused_order_loss"] = 1
        slots = set()
        for sub, subrel in b.nodes:
            c["factory_relations_checked"] = c.get("factory_relations_checked", 0) + 1
            try:
                again = E.conform(subrel)
            except Exception as exc:  # noqa: BLE001
                out["violations"].append({"kind": "conform_of_factory_relation_raised", "detail": f"{model.show(sub)}: {exc_str(exc)}"})
                break
            if again is not subrel:
                out["violations"].append({"kind": "factory_relation_not_conformed", "detail": f"{model.show(sub)}: conform returned a different object: {short(again)} vs {short(subrel)}"})
                break
            if not isinstance(subrel, sql.Select):
                out["violations"].append({"kind": "factory_relation_not_a_select", "detail": f"{model.show(sub)}: {short(subrel)}"})
                break
        if rel is not None:
            for kind, detail in structure.check_c17_tree(rel, E, c):
                out["violations"].append({"kind": kind, "detail": f"{label}: {detail}"})
            for n in interp.walk(rel):
                if isinstance(n, sql.Select):
                    pat = ("o" if n.has_sort else "") + ("p" if n.has_projection else "") + ("d" if n.has_deduplication else "") + ("l" if n.has_slice else "") + ("C" if n.is_compound else "")
                    if pat:
                        slots.add(pat)
                        c["markers_with_slots"] = c.get("markers_with_slots", 0) + 1
            # slot view and target view of each marker agree
            for n in interp.walk(rel):
                if isinstance(n, sql.Select):
                    try:
                        a = interp.eval_tree(n.target, b.rows_of_leaf)
                        s = interp.eval_select_slots(n, b.rows_of_leaf)
                    except (interp.IllFormed, interp.Unsupported) as exc:
                        out["violations"].append({"kind": "marker_view_illformed", "detail": f"{label}: {short(n)}: {exc}"})
                        break
                    c["marker_views_compared"] = c.get("marker_views_compared", 0) + 1
                    if a != s:
                        out["violations"].append({"kind": "marker_slots_disagree_with_target", "detail": f"{label}: {short(n)}: target gives {interp.named(a[0])} slots give {interp.named(s[0])}"})
                        break
            out["sigs"].append(f"factory:{gen.op_signature(prog)}:{','.join(sorted(slots))}")
        # ---------------- (2) raw route
        rb = RawBuilder(case["leaves"], E, db)
        try:
            raw = rb.build(prog)
        except R.RelationalAlgebraError as exc:
            out["skip"] = "raw_not_constructible"
            return out
        try:
            conformed = E.conform(raw)
        except R.RelationalAlgebraError as exc:
            if "will not preserve row order" in str(exc):
                c["raw_refused_order_loss"] = 1
                return out
            out["violations"].append({"kind": "conform_raised", "detail": f"{label}: {exc_str(exc)} raw {short(raw)}"})
            return out
        except Exception as exc:  # noqa: BLE001
            out["violations"].append({"kind": "conform_raised", "detail": f"{label}: {exc_str(exc)} raw {short(raw)}"})
            return out
        c["raw_trees_conformed"] = 1
        if not isinstance(conformed, sql.Select):
            out["violations"].append({"kind": "conformed_root_not_a_select", "detail": f"{label}: {short(conformed)}"})
            return out
        if E.conform(conformed) is not conformed:
            out["violations"].append({"kind": "conform_not_idempotent", "detail": f"{label}: {short(conformed)}"})
        for kind, detail in structure.check_c17_tree(conformed, E, c):
            out["violations"].append({"kind": kind, "detail": f"raw {label}: {detail}"})
        try:
            want_raw = interp.eval_tree(raw, rb.rows_of_leaf)
            got_conf = interp.eval_tree(conformed, rb.rows_of_leaf)
            if want_raw != got_conf:
                out["violations"].append({"kind": "conform_changed_tree_semantics", "detail": f"{label}: raw {short(raw)} gives {short(interp.named(want_raw[0]), 250)} conformed {short(conformed)} gives {short(interp.named(got_conf[0]), 250)}"})
        except (interp.IllFormed, interp.Unsupported) as exc:
            out["violations"].append({"kind": "conformed_tree_illformed", "detail": f"{label}: {exc}"})
        m = model.Model(case["leaves"], sql_slices=True, strict_fragile=True)
        try:
            want = m.eval(prog)
            got = names_rows(db.run(conformed))
            c["raw_rows_compared"] = 1
            if model.canon(got) != model.canon(want.rows):
                out["violations"].append({"kind": "conformed_rows_differ", "detail": f"{label}: conformed {short(conformed, 300)} got {short(model.canon(got), 250)} want {short(model.canon(want.rows), 250)}"})
        except model.Skip:
            c["raw_rows_skipped_nondeterministic"] = 1
        except Exception as exc:  # noqa: BLE001
            out["violations"].append({"kind": "conformed_tree_not_executable", "detail": f"{label}: {exc_str(exc)} conformed {short(conformed, 300)}"})
        out["sigs"].append(f"raw:{gen.op_signature(prog)}")
        out["evaluations"] = 2  # the factory route and the raw/conform route
        out["sample"] = {"program": label, "factory_tree": short(rel, 160) if rel is not None else None, "raw_tree": short(raw, 160), "conformed_raw": short(conformed, 160), "slot_patterns": sorted(slots)}
        return out
    finally:
        db.close()
