"""C03 - preferred-engine (backtracking) insertion never changes relation content."""
from __future__ import annotations

import itertools

from .. import bootstrap, exprs, gen, interp, model, multi
from ..common import exc_str, short
from ..dbx import DB, BuildFailure, Builder, make_engines, opt_kwargs
from ..monitors import backtrack as mbt
from ..monitors import commute as mcm
from ..tags import T, is_key

bootstrap.ensure()

ID = "C03"
LEVEL = "exploration"
TECHNIQUE = "runtime monitoring: differential processing of all preferred-engine option combinations + M-commute / M-backtrack hooks"
RULE = (
    "seeded random base trees spanning a SQL engine and two iteration engines (transfers, materializations, locked "
    "leaves, chains, joins in SQL); on each, one random valid operation (calculation, projection, selection, "
    "deduplication, sort, slice, or join to a fixed relation) is applied once with no preferred engine and then with "
    "every combination of preferred engine in {each of the three engines} x backtrack x transfer x "
    "require_preferred_engine (24 requests).  Every resulting tree is processed by a real Processor, executed, and "
    "compared with the baseline and with the reference model (multiset; ordered list for all-iteration trees); "
    "columns must match; a ColumnError is a violation when the baseline succeeds; with transfer=True the result must "
    "live in the preferred engine unless M-backtrack observed a completed upstream insertion (then it stays in the "
    "original engine); with require_preferred_engine the call must raise EngineError or add no operation node outside "
    "the preferred engine.  M-commute additionally judges every commute() call made during backtracking on the "
    "actual target rows.  Non-trivial = backtracking or a transfer actually happened; distinct = (operation kind, "
    "flags, route taken, base skeleton)."
    "  5 % of the cases are directed sort-over-sort requests on all-iteration bases (new sort terms are expressions "
    "over the columns of an existing sort, rows tie under the new terms): the reference model treats a stable sort "
    "of a determined list in an iteration engine as determined, so their row order is compared exactly. "
    "  A third of the directed sort-over-sort requests repeat a term of the existing sort with the opposite direction; final requests may be user-defined operations (iteration preferred engines only); bases contain user-defined markers. "
    "  Joins are compared with the join applied at the root after an explicit transfer of the target into the fixed operand's engine (no backtracking involved); 4 % of the cases are directed joins through Join.partial(fixed, is_lhs) whose target has projected away a (key or non-key) column that the fixed operand exposes. "
    "  2 % directed joins to a fixed SQL leaf declared to hold exactly one row, sharing no column with the target, with a two-sided predicate, requested on a target that ends in sort + slice downstream of a transfer. "
)
ASSUMPTIONS = [
    "reference model vmon/model.py, interpreter vmon/interp.py, SQLite + SQLAlchemy, real Processor subclass vmon/dbx.py",
    "non-deterministic-slice and key-functional-dependency preconditions (discarded and counted)",
    "documented behaviour: with backtrack=True a transfer is added only if backtracking did not fully succeed",
]
MIN_OBS = {"requests_compared": 1500, "backtrack_done": 100, "backtrack_partial_or_failed": 100, "transfer_added": 100, "require_raised": 50, "commute_calls_seen": 300}
CASE_TIMEOUT = 120
ENG = ("sql", "it", "it2")


def setup(tier):
    from ..monitors import hooks

    hooks.require()
    mcm.install()
    mbt.install()


def budget(tier):
    if tier == "quick":
        return {"cases": 8000, "workers": 8, "watchdog_s": 1800}
    return {"cases": 320000, "workers": 16, "watchdog_s": 3600, "budget_s": 600}


def gen_final_op(rng, g, cols, eng, custom=True):
    """A unary op spec (without target) valid on ``cols``; joins carry their fixed operand program."""
    kind = rng.choice(["calc", "proj", "sel", "dedup", "sort", "slice", "join", "join", "proj", "sel", "calc", "proj", "sel", "dedup", "sort", "slice", "join", "join", "proj", "sel", "cap", "rev"])
    if kind in ("cap", "rev") and not custom:
        kind = "sel"
    if kind in ("cap", "rev"):
        # user-defined operations requested with a preferred engine (run by the iteration engines' subclass)
        return {"kind": kind, "node": ["cap", ["leaf", "__T__"], rng.choice([0, 1, 2, 3, 5])] if kind == "cap" else ["rev", ["leaf", "__T__"]]}
    if kind == "join":
        fixed_engine = rng.choice(ENG)
        hidden_pool = list("abcd")
        fprog, fcols, _ = g.leaf(fixed_engine, want_cols=[c for c in rng.sample(hidden_pool, rng.randint(0, 3))], allow_special=rng.random() < 0.3)
        shared_nonkey = {c for c in cols & fcols if not is_key(c)}
        if shared_nonkey:
            keep = fcols - shared_nonkey
            fprog, fcols = ["proj", fprog, sorted(keep), None], frozenset(keep)
        p = exprs.gen_p(rng, cols | fcols, 1) if rng.random() < 0.4 else None
        return {"kind": "join", "fixed": fprog, "pred": p, "fixed_engine": fixed_engine, "is_lhs": rng.random() < 0.3}
    st = g.unary((["leaf", "__T__"], cols, eng), kind)
    if st is None:
        st = (["dedup", ["leaf", "__T__"], None], cols, eng)
    return {"kind": st[0][0], "node": st[0]}


def sort_over_sort_case(rng):
    """Directed: an all-iteration base ending `... -> transfer -> sort on plain columns` and a new
    sort (to be inserted upstream) whose terms are expressions over those same columns, so that rows
    tie under the new terms but differ in the existing sort's columns (order is asserted exactly)."""
    g = gen.Gen(rng, gen.Cfg(engines=("it", "it2"), special_leaves=False, raw_leaves=False, max_rows_choices=(3, 5, 8)))
    cols = sorted(rng.sample("abc", rng.randint(1, 3)))
    state = g.leaf("it", want_cols=cols, allow_special=False)
    if rng.random() < 0.4:
        state = g.unary(state, rng.choice(["sel", "calc"])) or state
    state = g.unary(state, "xfer") or state
    old_cols = rng.sample(cols, rng.randint(1, min(2, len(cols))))
    old_terms = [[["ref", c], rng.random() < 0.5] for c in old_cols]
    state = (["sort", state[0], old_terms, None], state[1], state[2])
    if rng.random() < 0.3:
        state = g.unary(state, rng.choice(["sel", "calc"])) or state
    e = ["ref", old_cols[0]]
    if len(old_cols) == 1:
        e = [rng.choice(["mul", "sub"]), e, e] if rng.random() < 0.7 else ["mul", e, ["lit", 0]]
    else:
        e = [rng.choice(["add", "mul", "sub"]), e, ["ref", old_cols[1]]]
    terms = [[e, rng.random() < 0.5]]
    if rng.random() < 0.3:
        terms.append([["ref", rng.choice(cols)], rng.random() < 0.5])
    if rng.random() < 0.35:
        # the same expression as a term of the existing sort, in the opposite direction (the two
        # sorts meet - and are merged - in the source engine), optionally after another term
        flipped = [[list(t[0]), not t[1]] for t in old_terms]
        rng.shuffle(flipped)
        terms = ([[["ref", rng.choice(cols)], rng.random() < 0.5]] if rng.random() < 0.3 else []) + flipped[: rng.randint(1, len(flipped))]
    others = [c for c in cols if c not in old_cols]
    if others and rng.random() < 0.3:
        # every term of the existing sort occurs in the new one, but not as its leading terms
        terms = [[["ref", rng.choice(others)], rng.random() < 0.5]] + [[list(t[0]), t[1]] for t in old_terms]
    prog, pcols_, eng = state
    return {"leaves": g.leaves, "prog": prog, "cols": sorted(pcols_), "engine": eng,
            "final": {"kind": "sort", "node": ["sort", ["leaf", "__T__"], terms, None]}, "directed": "sort_over_sort"}


def hidden_collision_join_case(rng):
    """Directed: the target has projected away a column h that the fixed operand of the join
    exposes (h is therefore not a common column); the join is requested through
    Join.partial(fixed, is_lhs) with the fixed operand in the engine upstream of a transfer, so
    backtracking would have to carry the join past the projection that hides h."""
    e1, e2 = rng.sample(ENG, 2)
    if rng.random() < 0.7:
        e1, e2 = "sql", rng.choice(["it", "it2"])  # joins are executable in the SQL engine only
    g = gen.Gen(rng, gen.Cfg(engines=ENG, special_leaves=False, raw_leaves=False, max_rows_choices=(2, 3, 5), nonkeys=False, leaf_cols="abcdxy"))
    cols = sorted(rng.sample("abcd", 3))
    h = rng.choice(cols)
    if rng.random() < 0.6:
        # a non-key column: it can never be one of the join's equality columns, so after a wrong move
        # its values would silently come from the wrong operand
        h = rng.choice("xy")
        cols = sorted(cols[:2] + [h])
    state = g.leaf(e1, want_cols=cols, allow_special=False)
    cols = sorted(state[1])
    if rng.random() < 0.3:
        state = g.unary(state, "sel") or state
    state = (["xfer", state[0], e2], state[1], e2)
    keep = [c for c in cols if c != h]
    state = (["proj", state[0], keep, None], frozenset(keep), e2)
    if rng.random() < 0.3:
        state = g.unary(state, rng.choice(["sel", "dedup"])) or state
    fcols = sorted({h} | set(rng.sample(keep, rng.randint(0, len(keep)))))
    fprog, fc, _ = g.leaf(e1, want_cols=fcols, allow_special=False)
    prog, pc, eng = state
    return {"leaves": g.leaves, "prog": prog, "cols": sorted(pc), "engine": eng, "directed": "hidden_collision_join",
            "final": {"kind": "join", "fixed": fprog, "pred": None, "fixed_engine": e1, "is_lhs": rng.random() < 0.5}}


def one_row_fixed_join_case(rng):
    """Directed: a join whose fixed operand is declared to hold exactly one row and shares no column
    with the target, with a predicate over both sides that filters, requested on a target that ends
    in sort + slice downstream of a transfer: moving the join upstream of the slice changes the window."""
    e2 = rng.choice(["it", "it2"])
    g = gen.Gen(rng, gen.Cfg(engines=ENG, special_leaves=False, raw_leaves=False, loose_bounds=False, max_rows_choices=(3, 5, 8), nonkeys=False))
    tcols = sorted(rng.sample("abc", 2))
    state = g.leaf("sql", want_cols=tcols, allow_special=False)
    tcols = sorted(state[1])
    state = (["xfer", state[0], e2], state[1], e2)
    terms = [[["ref", c], rng.random() < 0.5] for c in tcols]
    rng.shuffle(terms)
    state = (["sort", state[0], terms, None], state[1], e2)
    start = rng.choice([0, 1])
    state = (["slice", state[0], start, start + rng.choice([1, 2, 3])], state[1], e2)
    fcol = next(c for c in "dabc" if c not in tcols)
    name = f"L{len(g.leaves) + 1}"
    g.leaves[name] = {"engine": "sql", "cols": [fcol], "rows": [[rng.randint(-1, 2)]], "kind": "normal", "min": 1, "max": 1}
    pred = ["cmp", rng.choice(["lt", "ge", "ne", "gt"]), ["ref", rng.choice(tcols)], ["ref", fcol]]
    prog, pc, eng = state
    return {"leaves": g.leaves, "prog": prog, "cols": sorted(pc), "engine": eng, "directed": "one_row_fixed_join",
            "final": {"kind": "join", "fixed": ["leaf", name], "pred": pred, "fixed_engine": "sql", "is_lhs": rng.random() < 0.4}}


def gen_case(rng, tier, custom_final=True):
    if rng.random() < 0.02:
        return one_row_fixed_join_case(rng)
    if rng.random() < 0.05:
        return sort_over_sort_case(rng)
    if rng.random() < 0.04:
        return hidden_collision_join_case(rng)
    cfg = gen.Cfg(
        engines=ENG,
        ops=("calc", "proj", "sel", "dedup", "sort", "slice", "chain", "join", "mat", "cap", "rev", "mark"),
        weights={"mat": 0.6, "chain": 0.5, "join": 0.5, "proj": 1.4, "calc": 1.3, "sel": 1.3, "cap": 0.5, "rev": 0.4, "mark": 0.4},
        max_depth=1 if rng.random() < 0.6 else 2,
        xfer_prob=0.3,
        raw_leaves=False,
        sort_then_slice_prob=0.4,
        special_leaves=rng.random() < 0.5,
    )
    g = gen.Gen(rng, cfg)
    state = g.tree()
    if rng.random() < 0.07:
        # equal-but-distinct operands: the same program over leaves with the same name, columns and
        # engine (relation equality ignores payloads; locked nodes are identified by identity)
        state = gen.chain_with_name_twin(g, state, rng) or state
    # make sure there is at least one transfer near the root most of the time
    if rng.random() < 0.7:
        new = g.unary(state, "xfer")
        if new:
            state = new
            for _ in range(rng.randint(0, 3)):
                op = g.pick_op(("calc", "proj", "sel", "dedup", "sort", "slice", "cap", "rev", "mark"))
                nxt = g.unary(state, op)
                if nxt:
                    state = nxt
    prog, cols, eng = state
    final = gen_final_op(rng, g, cols, eng, custom=custom_final)
    return {"leaves": g.leaves, "prog": prog, "cols": sorted(cols), "engine": eng, "final": final}


def final_prog(case, opt):
    f = case["final"]
    if f["kind"] == "join":
        return ["join", case["prog"], f["fixed"], f["pred"], opt]
    node = list(f["node"])
    node[1] = case["prog"]
    if f["kind"] in ("slice", "cap", "rev"):
        return node + [opt]  # ["slice", sub, start, stop, opt]
    node[-1] = opt
    return node


def apply_final(case, base_rel, b, engines, opt):
    """Apply the final operation to the already-built base relation with the given options."""
    import lsst.daf.relation as R

    f = case["final"]
    kw = opt_kwargs(opt, engines)
    if f["kind"] == "join":
        fixed = b.build(f["fixed"])
        p = b.plib(f["pred"]) if f["pred"] is not None else None
        # public route only: Relation.join(rhs, predicate, backtrack=, transfer=); the preferred
        # engine of a join is always the fixed operand's engine
        if opt is None and base_rel.engine is not fixed.engine:
            # the reference "applied at the root": bring the target into the fixed operand's engine
            # with an explicit transfer and join there - no backtracking is involved at all
            base_rel = base_rel.transferred_to(fixed.engine)
        if f.get("is_lhs"):
            # the other public route: Join.partial(fixed, is_lhs=True).apply(target, ...)
            op = R.Join(p if p is not None else R.Predicate.literal(True)).partial(fixed, is_lhs=True)
            if opt is None:
                return op.apply(base_rel, backtrack=False)
            return op.apply(base_rel, backtrack=opt["bt"], transfer=opt["tr"])
        if opt is None:
            return base_rel.join(fixed, p, backtrack=False)
        return base_rel.join(fixed, p, backtrack=opt["bt"], transfer=opt["tr"])
    node = f["node"]
    k = f["kind"]
    if k == "calc":
        return base_rel.with_calculated_column(T(node[2]), b.elib(node[3]), **kw)
    if k == "proj":
        return base_rel.with_only_columns({T(c) for c in node[2]}, **kw)
    if k == "sel":
        return base_rel.with_rows_satisfying(b.plib(node[2]), **kw)
    if k == "dedup":
        return base_rel.without_duplicates(**kw)
    if k == "sort":
        return base_rel.sorted([R.SortTerm(b.elib(e), asc) for e, asc in node[2]], **kw)
    if k == "slice":
        return R.Slice(node[2], node[3]).apply(base_rel, **kw)
    if k == "cap":
        from ..ext import RowCap

        return RowCap(node[2]).apply(base_rel, **kw)
    if k == "rev":
        from ..ext import Reverse

        return Reverse().apply(base_rel, **kw)
    raise AssertionError(k)


def op_nodes_outside(rel, engine):
    import lsst.daf.relation as R

    n = 0
    for node in interp.walk(rel):
        if isinstance(node, (R.UnaryOperationRelation, R.BinaryOperationRelation)) and node.engine is not engine:
            n += 1
    return n


def run_case(case):
    import lsst.daf.relation as R

    out = {"counters": {}, "violations": [], "sigs": []}
    c = out["counters"]
    f = case["final"]
    used = multi.engines_in(case["prog"], case["leaves"])
    if f["kind"] == "join":
        used |= {f["fixed_engine"]}
    base_model_prog = final_prog(case, None)
    m = model.Model(case["leaves"], sql_slices=True, key_dedup=True, strict_fragile=True, ordered_engines=("it", "it2"))
    try:
        want = m.eval(base_model_prog)
    except model.Skip as s:
        out["skip"] = s.reason
        return out
    except model.ModelError:
        out["skip"] = "final_op_invalid"
        return out
    db = DB(shim=True)
    try:
        engines = make_engines(ENG)
        b = Builder(case["leaves"], engines, db)
        mcm.set_leaf_rows(b.rows_of_leaf)
        mcm.drain(), mbt.drain()
        try:
            base = b.build(case["prog"])
            if f["kind"] == "join":
                b.build(f["fixed"])
        except BuildFailure as bf:
            out["skip"] = "refused_order_loss" if "will not preserve row order" in str(bf.exc) else "base_rejected"
            if out["skip"] == "base_rejected":
                out["violations"].append({"kind": "rejected_valid_program", "detail": f"{exc_str(bf.exc)} at {model.show(bf.prog)}"})
            return out
        mcm.drain(), mbt.drain()
        mcm.COUNTERS.clear()
        ordered = want.det and not any(e.startswith("sql") for e in used)

        def rows_ok(rows):
            return rows == want.rows if ordered else model.canon(rows) == model.canon(want.rows)

        # ---- baseline
        baseline_exc = None
        try:
            r1 = apply_final(case, base, b, engines, None)
            rows1, _, _ = multi.evaluate(r1, db)
            if not rows_ok(rows1):
                # C07/C01/C02 territory; do not blame the preferred-engine machinery
                out["skip"] = "baseline_differs_from_model"
                c["baseline_differs_from_model"] = 1
                return out
        except Exception as exc:  # noqa: BLE001
            baseline_exc = exc
        mcm.drain(), mbt.drain()
        base_str = str(base)
        label = model.show(base_model_prog)
        # ---- every option combination
        if f["kind"] == "join":
            combos = [(f["fixed_engine"], bt, tr, False) for bt in (True, False) for tr in (False, True)]
            fixed_rel = b.build(f["fixed"])
            join_elides = base.is_join_identity or fixed_rel.is_join_identity
        else:
            combos = list(itertools.product(ENG, (True, False), (False, True), (False, True)))
            if f["kind"] in ("cap", "rev"):
                # only the iteration engines here implement the hook for user-defined operations
                combos = [x for x in combos if not x[0].startswith("sql")]
            join_elides = False
        # the same requests are issued on the freshly built tree and on the tree a Processor returned
        # for it (its transfers then carry payloads, which backtracking must not keep)
        phases = [(base, "built", combos)]
        try:
            from ..dbx import VProcessor

            processed_base = VProcessor(db).process(base)
            if processed_base is not base:
                phases.append((processed_base, "processed", [x for x in combos if x[1]]))
        except Exception:  # noqa: BLE001 - C07 judges the Processor itself
            c["base_not_processable"] = 1
        original_base = base
        for base, phase, phase_combos in phases:
          base_str = str(base)
          for pe, bt, tr, rq in phase_combos:
                opt = {"pe": pe, "bt": bt, "tr": tr, "rq": rq}
                E = engines[pe]
                req = f"{label} [{phase} tree] with preferred_engine={pe} backtrack={bt} transfer={tr} require={rq}"
                mcm.drain(), mbt.drain()
                try:
                    r2 = apply_final(case, base, b, engines, opt)
                    exc2 = None
                except Exception as exc:  # noqa: BLE001
                    exc2 = exc
                cev, cviol = mcm.drain()
                bev = mbt.drain()
                mech = None
                if any(isinstance(n, R.Projection) and isinstance(cur.operation, R.Deduplication) and cm.first is not None for n, cur, cm in cev):
                    mech = "KF-proj-dedup"
                for v in cviol:
                    c["commute_hook_violations_seen"] = c.get("commute_hook_violations_seen", 0) + 1
                done = bev[-1]["done"] if bev else None
                route = "same_engine" if E is base.engine else ("no_backtrack" if not bev else ("done" if done else "not_done"))
                if exc2 is not None:
                    if isinstance(exc2, R.ColumnError):
                        if baseline_exc is None:
                            out["violations"].append({"kind": "column_error_from_backtracking", "mech": mech, "detail": f"{req}: {exc_str(exc2)}"})
                    elif isinstance(exc2, R.EngineError):
                        if rq and not tr and E is not base.engine:
                            c["require_raised"] = c.get("require_raised", 0) + 1
                        elif f["kind"] == "join" or baseline_exc is not None:
                            c["engine_error_legit"] = c.get("engine_error_legit", 0) + 1
                        else:
                            out["violations"].append({"kind": "unexpected_engine_error", "mech": mech, "detail": f"{req}: {exc_str(exc2)}"})
                    elif isinstance(exc2, R.RelationalAlgebraError) and "will not preserve row order" in str(exc2):
                        c["order_loss_refusals"] = c.get("order_loss_refusals", 0) + 1
                    elif baseline_exc is not None and type(baseline_exc) is type(exc2):
                        c["same_exception_as_baseline"] = c.get("same_exception_as_baseline", 0) + 1
                    else:
                        out["violations"].append({"kind": "unexpected_exception", "mech": mech, "detail": f"{req}: {exc_str(exc2)}"})
                    continue
                # ---- structural obligations
                if set(r2.columns) != {T(x) for x in want.cols}:
                    out["violations"].append({"kind": "columns_differ", "mech": mech, "detail": f"{req}: {sorted(map(str, r2.columns))} vs {sorted(want.cols)} tree {short(r2)}"})
                    continue
                if r2 is base or join_elides:
                    c["documented_noop_requests"] = c.get("documented_noop_requests", 0) + 1
                elif E is not base.engine:
                    if tr:
                        if bt and done:
                            if r2.engine is not base.engine:
                                out["violations"].append({"kind": "done_but_engine_changed", "mech": mech, "detail": f"{req}: result engine {r2.engine}"})
                        elif r2.engine is not E:
                            out["violations"].append({"kind": "transfer_requested_but_not_in_preferred_engine", "mech": mech, "detail": f"{req}: result engine {r2.engine} tree {short(r2)}"})
                        else:
                            c["transfer_added"] = c.get("transfer_added", 0) + 1
                    elif rq:
                        if op_nodes_outside(r2, E) > op_nodes_outside(base, E):
                            out["violations"].append({"kind": "require_added_operation_outside_preferred", "mech": mech, "detail": f"{req}: tree {short(r2)} base {short(base)}"})
                    if bev:
                        c["backtrack_done" if done else "backtrack_partial_or_failed"] = c.get("backtrack_done" if done else "backtrack_partial_or_failed", 0) + 1
                # ---- content
                try:
                    rows2, _, _ = multi.evaluate(r2, db)
                except Exception as exc:  # noqa: BLE001
                    if isinstance(exc, R.EngineError) and "Joins are not supported by the iteration engine" in str(exc):
                        # accepted-then-unsupported joins are C08's (known) finding, not a backtracking matter
                        c["join_landed_in_iteration_engine"] = c.get("join_landed_in_iteration_engine", 0) + 1
                        continue
                    if multi.prune_order_loss(r2, exc):
                        c["process_time_order_refusal_known_finding"] = c.get("process_time_order_refusal_known_finding", 0) + 1
                        continue
                    out["violations"].append({"kind": "result_not_evaluable", "mech": mech, "detail": f"{req}: {exc_str(exc)} tree {short(r2, 400)}"})
                    continue
                c["requests_compared"] = c.get("requests_compared", 0) + 1
                if phase == "processed":
                    c["requests_on_processed_tree"] = c.get("requests_on_processed_tree", 0) + 1
                if not rows_ok(rows2):
                    out["violations"].append({
                        "kind": "rows_differ", "mech": mech,
                        "detail": f"{req}: tree {short(r2, 400)} got {short(model.canon(rows2), 250)} want {short(model.canon(want.rows), 250)} backtrack_messages={bev[-1]['messages'] if bev else None}",
                    })
                if route not in ("same_engine", "no_backtrack") or (tr and E is not base.engine):
                    out["sigs"].append(f"{f['kind']}:{int(bt)}{int(tr)}{int(rq)}:{route}:{gen.op_signature(case['prog'])[-5:]}:{pe}>{case['engine']}")
                if str(base) != base_str:
                    out["violations"].append({"kind": "base_tree_changed", "detail": req})
        base = original_base
        out["evaluations"] = sum(len(pc) for _, _, pc in phases) + 1  # requests issued (+ the baseline)
        for bad in b.sweep_expressions()[:2]:
            out["violations"].append({"kind": "expression_required_columns_corrupted_by_requests", "detail": f"{label}: {bad}"})
        c["expression_objects_swept"] = len(b.expr_cache)
        for k, v in mcm.COUNTERS.items():
            c[k] = c.get(k, 0) + v
        if out["sigs"]:
            out["sample"] = {"base": model.show(case["prog"]), "operation": f["kind"], "base_tree": short(base, 200), "routes": sorted(set(s.split(":")[2] for s in out["sigs"]))}
        return out
    finally:
        mcm.set_leaf_rows(None)
        db.close()
