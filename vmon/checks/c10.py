"""C10 - payloads are write-once and materializations are computed at most once."""
from __future__ import annotations

import random

from .. import bootstrap, gen, interp, model, multi
from ..common import exc_str, names_rows, short
from ..dbx import DB, BuildFailure, Builder, VProcessor, make_engines
from ..monitors import hooks
from ..monitors import payload as mp
from . import c03

bootstrap.ensure()

ID = "C10"
LEVEL = "exploration"
TECHNIQUE = "runtime monitoring: icontract contract on attach_payload, shadow payload map, leaf iteration counters and hook log over histories"
RULE = (
    "seeded random histories (20-45 steps quick / 45-120 thorough) over a pool of trees that all share one or two "
    "'core' materialization nodes whose upstream pipeline reads a CountingRows leaf used nowhere else (iteration "
    "cores) or a SQL leaf (SQL cores; evaluation = a Processor.materialize hook call).  Steps in random order and "
    "repetition: build a new tree on top of a core (operations, transfers to any engine, self-chains), "
    "engine.execute, Processor.process, attach_payload with a valid payload, again, with None, and on every relation "
    "type.  Monitors: icontract postcondition on attach_payload (it may only return if there was no payload and the "
    "relation now holds the argument; non-marker relations must raise TypeError); shadow map of payload identities "
    "swept after every step (a non-None payload must never be replaced or cleared); over the WHOLE history the core's "
    "leaf may start at most as many iterations as it has occurrences upstream of the core and the materialize hook may "
    "run at most once per core; every later evaluation of a core must return the cached rows.  Non-trivial = the core "
    "was evaluated and then re-used >= 2 times; distinct = multiset of step kinds x core kind."
    "  Some cores are calc -> transfer -> 0-2 user-defined markers -> materialization or end in a chain with a "
    "doomed branch; payload objects with value equality and lazy (batched, re-iterable) row iterables are attached; the rows cached on each core are "
    "snapshotted when first seen and re-compared (same rows, same order) after every step. "
    "  'faulted' steps make an evaluation FAIL half-way (the core's leaf stops delivering rows at a random position, or the k-th Processor hook call raises): a payload stored by a failed evaluation must hold the complete rows, iterations started by the failed attempt are not counted against at-most-once, and all later steps are judged as usual. "
    "  Worker 0 adds scale probes: a 150 000-row materialization shared by two small slices and a full read, in three orders of first use (evaluated once, cached on the node). "
)
ASSUMPTIONS = [
    "iteration-core leaves are observed through CountingRows payloads; SQL cores through the Processor hook log",
    "attach_payload(None) on a relation without payload is a no-op (the payload stays None), as the code documents",
]
MIN_OBS = {"steps_executed": 4000, "scale_probes": 3, "faults_injected": 500, "attach_contract_evaluations": 300, "attach_rejections_checked": 1000, "core_reuses": 1000, "shadow_sweeps": 4000, "cores_evaluated": 200}
CASE_TIMEOUT = 180
STEPS = ["build", "build", "execute", "execute", "process", "process", "attach_valid", "attach_again", "attach_none", "attach_nonmarker", "faulted", "faulted"]


def setup(tier):
    hooks.require()
    mp.install()


def budget(tier):
    if tier == "quick":
        return {"cases": 6000, "workers": 8, "watchdog_s": 1800}
    return {"cases": 240000, "workers": 16, "watchdog_s": 3600, "budget_s": 600}


def gen_case(rng, tier):
    cfg = gen.Cfg(engines=c03.ENG, special_leaves=False, raw_leaves=False, loose_bounds=False, max_rows_choices=(1, 2, 3, 5))
    g = gen.Gen(rng, cfg)
    cores = []
    for i in range(rng.choice([1, 2])):
        eng = rng.choice(["it", "it", "it2", "sql"])
        state = g.leaf(eng, want_cols=rng.sample("abcd", rng.randint(1, 3)), allow_special=False)
        leaf_name = state[0][1]
        for _ in range(rng.randint(1, 3)):
            op = rng.choice(["calc", "proj", "sel", "slice", "chain_self", "dedup", "sort"] if eng != "sql" else ["calc", "proj", "sel", "dedup"])
            if op == "chain_self":
                state = (["chain", state[0], state[0]], state[1], state[2])
            else:
                nxt = g.unary(state, op)
                if nxt and nxt[1]:
                    state = nxt
        with_calc = g.unary(state, "calc") if rng.random() < 0.25 else None
        if with_calc is not None:
            # a chain with a doomed branch directly under the materialization (the Processor prunes
            # it); the surviving branch ends in a calculation so that it is a genuinely unevaluated
            # pipeline and not just the leaf's own (already materialized) payload
            state = with_calc
            dprog, _, _ = g.leaf(eng, want_cols=sorted(state[1]), allow_special=False)
            dname = dprog[1]
            g.leaves[dname] = {"engine": eng, "cols": sorted(state[1]), "rows": [], "kind": "doomed"}
            state = ((["chain", dprog, state[0]] if rng.random() < 0.5 else ["chain", state[0], dprog]), state[1], state[2])
        calc_first = g.unary(state, "calc") if rng.random() < 0.15 else None
        if calc_first is not None:
            # the materialization sits on a transfer, directly or under one or two user-defined
            # markers (MarkerRelation subclasses that only annotate their target).  The pipeline
            # ends in a calculation so that what gets cached is not just the leaf's own payload.
            state = calc_first
            dest = rng.choice([e for e in ("it", "it2") if e != eng])
            state = (["xfer", state[0], dest], state[1], dest)
            for _ in range(rng.randint(0, 2)):
                state = (["mark", state[0], rng.choice(["tag", "note"])], state[1], dest)
            eng = dest
        cores.append({"prog": ["mat", state[0], f"CORE{i}"], "cols": sorted(state[1]), "engine": eng, "leaf": leaf_name})
    return {"leaves": g.leaves, "cores": cores, "seed": rng.randint(0, 10**9), "steps": rng.randint(20, 45) if tier == "quick" else rng.randint(45, 120)}


def eq_rows_class():
    """An iteration payload type with *value* equality (as a custom engine's payload may have):
    a second attach with an equal but distinct object must still be rejected."""
    from lsst.daf.relation import iteration

    class EqRows(iteration.RowSequence):
        def __eq__(self, other):
            return isinstance(other, iteration.RowSequence) and list(self.rows) == list(other.rows)

        def __hash__(self):
            return 0

    return EqRows


def leaf_occurrences(prog, leaf):
    if prog[0] == "leaf":
        return 1 if prog[1] == leaf else 0
    kids = [prog[1], prog[2]] if prog[0] in ("chain", "join") else [prog[1]]
    return sum(leaf_occurrences(k, leaf) for k in kids)


def find_core_node(rel, name):
    import lsst.daf.relation as R

    for n in interp.walk(rel):
        if isinstance(n, R.Materialization) and n.name == name:
            return n
    return None


def run_case(case):
    import lsst.daf.relation as R
    from lsst.daf.relation import iteration, sql

    out = {"counters": {}, "violations": []}
    c = out["counters"]
    rng = random.Random(case["seed"])
    mp.COUNTERS.clear()
    db = DB(shim=True)
    proc_log = []
    try:
        engines = make_engines(c03.ENG)
        b = Builder(case["leaves"], engines, db, counting=True)
        g = gen.Gen(rng, gen.Cfg(engines=c03.ENG))
        g.leaves = dict(case["leaves"])
        pool = []
        cores = []
        for core in case["cores"]:
            try:
                rel = b.build(core["prog"])
            except BuildFailure as f:
                out["skip"] = "core_rejected"
                return out
            node = find_core_node(rel, core["prog"][2])
            if node is None:
                out["skip"] = "core_simplified_away"
                return out
            cores.append({"spec": core, "rel": rel, "node": node, "evaluated": 0, "reuses": 0, "rows": None})
            pool.append({"prog": core["prog"], "rel": rel, "cols": frozenset(core["cols"]), "eng": core["engine"], "core": len(cores) - 1})
        shadow = mp.Shadow()
        kinds = []
        m = model.Model(case["leaves"], sql_slices=True, key_dedup=True, strict_fragile=True, ordered_engines=("it", "it2"))

        def check_rows(ent, rows, what):
            try:
                want = m.eval(c09_strip(ent["prog"]))
            except (model.Skip, model.ModelError):
                return
            if model.canon(rows) != model.canon(want.rows):
                out["violations"].append({"kind": "evaluation_differs_after_caching", "detail": f"{what}: got {short(model.canon(rows), 200)} want {short(model.canon(want.rows), 200)}"})

        for step in range(case["steps"]):
            kind = rng.choice(STEPS)
            ent = rng.choice(pool)
            what = f"step {step} {kind} on {model.show(ent['prog'])}"
            try:
                if kind == "build":
                    op = rng.choice(["calc", "proj", "sel", "dedup", "sort", "slice", "xfer", "chain_self", "mat"])
                    if op == "chain_self":
                        prog = ["chain", ent["prog"], ent["prog"]]
                    else:
                        st = g.unary((ent["prog"], ent["cols"], ent["eng"]), op)
                        if st is None:
                            continue
                        prog = st[0]
                        if op == "mat":
                            prog = ["mat", prog[1], f"M{step}"]
                    rel = b.build(prog)
                    pool.append({"prog": prog, "rel": rel, "cols": frozenset(t.qualified_name for t in rel.columns), "eng": str(rel.engine), "core": ent["core"]})
                elif kind in ("execute", "process"):
                    before = [cr["node"].payload for cr in cores]
                    if kind == "execute" and isinstance(ent["rel"].engine, iteration.Engine) and not any(isinstance(n.engine, sql.Engine) for n in interp.walk(ent["rel"])):
                        rows = names_rows(ent["rel"].engine.execute(ent["rel"]))
                    else:
                        proc = VProcessor(db)
                        rows, _, _ = multi.evaluate(ent["rel"], db, proc)
                        proc_log.extend(proc.log)
                    check_rows(ent, rows, what)
                    for cr, old in zip(cores, before):
                        if cr["node"].payload is not None:
                            if old is None:
                                cr["evaluated"] += 1
                            elif find_core_node(ent["rel"], cr["spec"]["prog"][2]) is cr["node"]:
                                cr["reuses"] += 1
                                c["core_reuses"] = c.get("core_reuses", 0) + 1
                elif kind == "faulted":
                    # an evaluation that FAILS half-way: the core's leaf stops delivering rows at a
                    # random position, or a Processor hook raises.  Nothing half-done may be cached:
                    # whatever payload exists afterwards is checked like any other (rows = model, never
                    # replaced), and later evaluations must still be right.
                    from ..dbx import FaultyProcessor, InjectedFault

                    cr = cores[ent["core"]]
                    pl = b.leaf_payloads.get(cr["spec"]["leaf"])
                    native = isinstance(ent["rel"].engine, iteration.Engine) and not any(isinstance(n.engine, sql.Engine) for n in interp.walk(ent["rel"]))
                    leaf_fault = pl is not None and hasattr(pl, "fail_at") and rng.random() < 0.6
                    starts0 = pl.starts if pl is not None and hasattr(pl, "starts") else 0
                    before = [x["node"].payload for x in cores]
                    proc = None
                    try:
                        if leaf_fault:
                            pl.fail_at = rng.randint(0, len(pl))
                        if native and leaf_fault:
                            rows = names_rows(ent["rel"].engine.execute(ent["rel"]))
                        else:
                            proc = FaultyProcessor(db, None if leaf_fault else rng.randint(1, 3))
                            rows, _, _ = multi.evaluate(ent["rel"], db, proc)
                        check_rows(ent, rows, what + " (no fault fired)")
                    except InjectedFault:
                        c["faults_injected"] = c.get("faults_injected", 0) + 1
                        kind = "faulted_fired"
                    finally:
                        if pl is not None and hasattr(pl, "fail_at"):
                            pl.fail_at = None
                        if proc is not None:
                            proc_log.extend(proc.completed)  # a hook call that failed computed nothing
                    if pl is not None and hasattr(pl, "starts") and kind == "faulted_fired":
                        # iterations started by the failed attempt do not count against "at most once"
                        cr["fault_starts"] = cr.get("fault_starts", 0) + (pl.starts - starts0)
                    for x, old in zip(cores, before):
                        if x["node"].payload is not None and old is None:
                            x["evaluated"] += 1
                            if kind == "faulted_fired":
                                c["payloads_stored_by_a_failed_evaluation"] = c.get("payloads_stored_by_a_failed_evaluation", 0) + 1
                                # legitimate only if the rows are complete: judged right here
                                p_now = x["node"].payload
                                if isinstance(p_now, iteration.RowIterable):
                                    try:
                                        want_c = m.eval(c09_strip(x["spec"]["prog"]))
                                        got_c = names_rows(p_now)
                                        if model.canon(got_c) != model.canon(want_c.rows):
                                            out["violations"].append({"kind": "partial_payload_cached_by_failed_evaluation", "detail": f"{what}: {x['spec']['prog'][2]} now holds {short(model.canon(got_c), 200)}, complete rows are {short(model.canon(want_c.rows), 200)}"})
                                    except (model.Skip, model.ModelError):
                                        pass
                                    except InjectedFault:
                                        out["violations"].append({"kind": "partial_payload_cached_by_failed_evaluation", "detail": f"{what}: the payload stored on {x['spec']['prog'][2]} still reads from the failed source"})
                elif kind == "attach_valid":
                    cr = cores[ent["core"]]
                    node = cr["node"]
                    had = node.payload is not None
                    # a truthful payload computed from the model
                    try:
                        want = m.eval(c09_strip(cr["spec"]["prog"]))
                    except (model.Skip, model.ModelError):
                        continue
                    from ..tags import T
                    rows = [{T(k): v for k, v in r.items()} for r in want.rows]
                    if isinstance(node.engine, sql.Engine):
                        new_payload = db.make_table("attached", [T(x) for x in cr["spec"]["cols"]], rows)
                    else:
                        r_kind = rng.random()
                        if r_kind < 0.35:
                            new_payload = eq_rows_class()(rows)
                        elif r_kind < 0.65:
                            # a lazy (not materialized) but re-iterable RowIterable, e.g. rows that
                            # arrive in batches: any payload object is the caller's to choose
                            k = rng.randint(0, len(rows))
                            new_payload = iteration.ChainRowIterable([iteration.RowSequence(rows[:k]), iteration.RowSequence(rows[k:])])
                            c["lazy_payloads_attached"] = c.get("lazy_payloads_attached", 0) + 1
                        else:
                            new_payload = iteration.RowSequence(rows)
                    try:
                        node.attach_payload(new_payload)
                        if had:
                            out["violations"].append({"kind": "attach_accepted_on_relation_with_payload", "detail": what})
                        elif node.payload is not new_payload:
                            out["violations"].append({"kind": "attach_did_not_store_payload", "detail": what})
                        else:
                            cr["evaluated"] += 0  # attached by the user, never computed
                            cr["attached_by_user"] = True
                    except TypeError:
                        c["attach_rejections_checked"] = c.get("attach_rejections_checked", 0) + 1
                        if not had:
                            out["violations"].append({"kind": "attach_rejected_on_empty_marker", "detail": what})
                elif kind == "attach_again":
                    for cr in cores:
                        node = cr["node"]
                        if node.payload is None:
                            continue
                        old = node.payload
                        twin = eq_rows_class()(list(old.rows)) if isinstance(old, iteration.RowSequence) else None
                        for p in (iteration.RowSequence([]), None, old) + ((twin,) if twin is not None else ()):
                            try:
                                node.attach_payload(p)
                                out["violations"].append({"kind": "attach_accepted_on_relation_with_payload", "detail": f"{what} payload {type(p).__name__}"})
                            except TypeError:
                                c["attach_rejections_checked"] = c.get("attach_rejections_checked", 0) + 1
                            if node.payload is not old:
                                out["violations"].append({"kind": "payload_replaced_or_cleared", "detail": f"{what}: attach_payload({type(p).__name__}) changed the payload"})
                                old = node.payload
                elif kind == "attach_none":
                    node = cores[ent["core"]]["node"]
                    old = node.payload
                    try:
                        node.attach_payload(None)
                        if old is not None:
                            out["violations"].append({"kind": "attach_none_accepted_on_relation_with_payload", "detail": what})
                    except TypeError:
                        c["attach_rejections_checked"] = c.get("attach_rejections_checked", 0) + 1
                    if node.payload is not old:
                        out["violations"].append({"kind": "payload_replaced_or_cleared", "detail": f"{what}: attach_payload(None) changed the payload"})
                elif kind == "attach_nonmarker":
                    for n in list(interp.walk(ent["rel"]))[:12]:
                        if isinstance(n, R.MarkerRelation):
                            continue
                        old = n.payload
                        try:
                            n.attach_payload(iteration.RowSequence([]))
                            out["violations"].append({"kind": "non_marker_accepted_payload", "detail": f"{what}: {type(n).__name__} {short(n, 100)}"})
                        except TypeError:
                            c["attach_rejections_checked"] = c.get("attach_rejections_checked", 0) + 1
                        except Exception as exc:  # noqa: BLE001
                            out["violations"].append({"kind": "non_marker_attach_wrong_exception", "detail": f"{what}: {exc_str(exc)}"})
                        if n.payload is not old:
                            out["violations"].append({"kind": "non_marker_payload_changed", "detail": f"{what}: {type(n).__name__}"})
            except BuildFailure:
                kind += "_rejected"
            except mp.PayloadContractBroken as exc:
                out["violations"].append({"kind": "attach_payload_contract_broken", "detail": f"{what}: {exc}"})
            except R.RelationalAlgebraError as exc:
                if "Joins are not supported" not in str(exc) and "will not preserve row order" not in str(exc):
                    out["violations"].append({"kind": "evaluation_raised", "detail": f"{what}: {exc_str(exc)}"})
                kind += "_raised"
            except Exception as exc:  # noqa: BLE001
                out["violations"].append({"kind": "evaluation_raised", "detail": f"{what}: {exc_str(exc)}"})
                kind += "_raised"
            kinds.append(kind)
            c["steps_executed"] = c.get("steps_executed", 0) + 1
            # the cached rows themselves: same rows in the same order for the rest of the history
            for cr in cores:
                p = cr["node"].payload
                if p is None or not isinstance(p, iteration.RowIterable):
                    continue
                cur = [tuple(sorted((str(k), v) for k, v in r.items())) for r in p]
                if cr.get("snapshot") is None:
                    cr["snapshot"] = cur
                else:
                    c["cached_rows_rechecked"] = c.get("cached_rows_rechecked", 0) + 1
                    if cur != cr["snapshot"] and not cr.get("snapshot_reported"):
                        cr["snapshot_reported"] = True
                        out["violations"].append({"kind": "cached_rows_changed", "detail": f"{what}: rows cached on {cr['spec']['prog'][2]} were {short(cr['snapshot'], 200)}, now {short(cur, 200)}"})
            out["violations"].extend(shadow.sweep([e["rel"] for e in pool], f"during {what}"))
            if len(out["violations"]) > 6:
                break
        # ---- at-most-once over the whole history
        for cr in cores:
            spec = cr["spec"]
            name = spec["prog"][2]
            if cr["node"].payload is not None:
                c["cores_evaluated"] = c.get("cores_evaluated", 0) + 1
            hook_calls = [x for x in proc_log if x[0] == "materialize" and x[2] == name] + [x for x in proc_log if x[0] == "transfer" and x[3] == name]
            if len(hook_calls) > 1:
                out["violations"].append({"kind": "materialization_computed_more_than_once", "detail": f"{name}: {len(hook_calls)} hook calls over the history ({[x[0] for x in hook_calls]})"})
            pl = b.leaf_payloads.get(spec["leaf"])
            if pl is not None and hasattr(pl, "starts"):
                allowed = leaf_occurrences(spec["prog"][1], spec["leaf"]) + cr.get("fault_starts", 0)
                c["core_leaf_iteration_starts"] = c.get("core_leaf_iteration_starts", 0) + pl.starts
                if pl.starts > allowed:
                    out["violations"].append({"kind": "core_upstream_evaluated_more_than_once", "detail": f"{name}: leaf {spec['leaf']} started {pl.starts} iterations over the history, at most {allowed} allowed (one evaluation of {model.show(spec['prog'][1])}); steps {kinds}"})
        for k, v in mp.COUNTERS.items():
            c[k] = c.get(k, 0) + v
        if sum(cr["reuses"] for cr in cores) >= 2:
            eff = [k for k in kinds if not k.endswith("_rejected")]
            out["sig"] = ",".join(f"{k}{min(eff.count(k), 9)}" for k in sorted(set(eff))) + "|" + "+".join(cr["spec"]["engine"] for cr in cores)
            out["sample"] = {"cores": [model.show(cr["spec"]["prog"]) for cr in cores], "steps": {k: kinds.count(k) for k in sorted(set(kinds))}, "core_reuses": [cr["reuses"] for cr in cores], "pool": len(pool)}
        return out
    finally:
        db.close()


def run_shard(seed, wid, nworkers, tier):
    """Worker 0: scale probes.  A materialization of 150 000 rows shared by two small slices and a
    full read, in three orders of first use: the upstream tree is evaluated once, whichever consumer
    comes first, and the rows are cached on the node (behaviour that switches with size never shows on
    a dozen rows)."""
    import lsst.daf.relation as R
    from lsst.daf.relation import iteration

    from ..dbx import CountingRows
    from ..tags import T

    out = {"counters": {}, "violations": [], "evaluations": 0, "sigs": [], "extra": {}}
    if wid != 0:
        return out
    a = T("a")
    n = 150_000
    for order in (("slice", "slice2", "full"), ("full", "slice", "slice2"), ("slice2", "full", "slice")):
        log: list = []
        rows = [{a: i} for i in range(n)]
        payload = CountingRows(rows, "BIG", log)
        engine = iteration.Engine(name="big")
        leaf = R.LeafRelation(engine, frozenset({a}), payload, name="BIG", min_rows=n, max_rows=n)
        mat = leaf.with_calculated_column(T("b"), R.ColumnExpression.reference(a).method("__neg__")).materialized(name="BIGM")
        node = mat
        while not isinstance(node, R.Materialization):
            node = node.target
        users = {"slice": mat[0:5], "slice2": mat[100_000:100_010], "full": mat}
        want = {"slice": 5, "slice2": 10, "full": n}
        for k in order:
            got = sum(1 for _ in engine.execute(users[k]))
            out["evaluations"] += 1
            if got != want[k]:
                out["violations"].append({"kind": "scale_probe_rows_differ", "detail": f"{k} of a {n}-row materialization yields {got} rows, expected {want[k]} (order of first use {order})"})
        if payload.starts > 1:
            out["violations"].append({"kind": "core_upstream_evaluated_more_than_once", "detail": f"{n}-row leaf below a materialization started {payload.starts} iterations for the uses {order}"})
        out["counters"]["scale_probes"] = out["counters"].get("scale_probes", 0) + 1
    return out


def c09_strip(prog):
    from .c09 import strip_opts

    return strip_opts(prog)
