"""C18 - the iteration engine is lazy and single-pass where documented."""
from __future__ import annotations

import collections

from .. import bootstrap, gen, model
from ..common import exc_str, names_rows, short
from ..dbx import BuildFailure, Builder, make_engines

bootstrap.ensure()

ID = "C18"
LEVEL = "exploration"
TECHNIQUE = "runtime monitoring: phase-partitioned iteration-start counters on instrumented leaf payloads"
RULE = (
    "seeded random iteration-engine programs over leaves whose payload is a CountingRows object (implements only "
    "__iter__ and __len__, logs every iteration start and every row pulled).  Phase-partitioned counters (build / "
    "execute / pass 1 / pass 2 / pass 3) are compared with the number of occurrences of each leaf in the program "
    "(self-chains double them), split into occurrences below an eager node (sort, deduplication, materialization) "
    "and lazy ones: building starts no iteration; for programs of calculation / projection / selection / slice / "
    "chain / transfer only, execute() starts none and every pass starts <= one iteration per occurrence; with eager "
    "nodes, execute() starts <= one iteration per occurrence below an eager node and later passes start none of "
    "those; the three passes return identical rows (and the model's rows).  Non-trivial = >= 2 operations; distinct = "
    "program skeleton x laziness class."
    "  A second execute() follows the three passes: it may start iterations only for leaf occurrences that do not "
    "lie below a materialization whose rows are held in a collection of their own (gathered by the materialization "
    "or by the sort / deduplication right below it), since those rows are cached on the node by the first execute(). "
    "  Between the passes and the second execute() an iterator over the result is abandoned after 0-5 rows (a consumer that stops early); the full pass that follows must return the same rows and start at most one iteration per lazy occurrence. "
    "  In 30 % of the cases one evaluation is made to FAIL (a leaf stops delivering rows at a random position) - either before everything else or at the end; all evaluations after it must behave and yield exactly as if it had not happened. "
    "  Keyed leaves may hold a counting RowMapping payload; for a leaf directly below a deduplication only the rows are asserted. "
)
ASSUMPTIONS = [
    "only iteration starts observable through the leaf payloads are judged (the engine's internal iterables are not hooked)",
    "reference model vmon/model.py for the row content",
]
MIN_OBS = {"second_executes_checked": 500, "faulted_evaluations": 300, "passes_after_abandoned_iterator": 500, "lazy_only_programs": 300, "eager_programs": 300, "passes_checked": 2000, "leaf_iteration_starts_observed": 2000}
EAGER = ("sort", "dedup", "mat")


def budget(tier):
    if tier == "quick":
        return {"cases": 100000, "workers": 8, "watchdog_s": 1800}
    return {"cases": 4000000, "workers": 16, "watchdog_s": 3600, "budget_s": 600}


def gen_case(rng, tier):
    lazy_only = rng.random() < 0.45
    ops = ("calc", "proj", "sel", "slice", "chain") if lazy_only else ("calc", "proj", "sel", "slice", "chain", "sort", "dedup", "mat")
    cfg = gen.Cfg(engines=("it", "it2"), ops=ops, xfer_prob=0.08, weights={"chain": 1.6, "slice": 1.3, "sort": 1.2, "dedup": 1.2, "mat": 1.0},
                  max_depth=2 if tier == "quick" or rng.random() < 0.6 else 3, special_leaves=False, loose_bounds=True, total_sort_prob=0.4,
                  max_rows_choices=(1, 2, 3, 5, 8))
    g = gen.Gen(rng, cfg)
    case = gen.case_from(g, g.tree())
    case["lazy_only"] = lazy_only
    case["abandon_after"] = rng.choice([0, 1, 1, 2, 3, 5])
    if rng.random() < 0.3:
        # one evaluation in which a leaf stops delivering rows half-way (before anything else, or at the end)
        case["fault"] = {"leaf": rng.randint(0, 7), "at": rng.randint(0, 8), "first": rng.random() < 0.5}
    return case


def result_kind(rel) -> str:
    """What iteration.Engine.execute() returns for this (library) tree, judged from its
    documented behaviour: 'leafpayload' (the leaf's own payload object, so iterating it
    iterates the leaf), 'seq' (rows held in a collection independent of the leaves) or 'lazy'."""
    import lsst.daf.relation as R

    if isinstance(rel, R.LeafRelation):
        return "leafpayload"
    if isinstance(rel, R.Materialization):
        k = result_kind(rel.target)
        return "seq" if k == "lazy" else k
    if isinstance(rel, R.MarkerRelation):
        return result_kind(rel.target)
    if isinstance(rel, R.UnaryOperationRelation):
        op = rel.operation
        if isinstance(op, (R.Sort, R.Deduplication)):
            return "seq"
        if isinstance(op, R.Slice):
            return "seq" if result_kind(rel.target) == "seq" else "lazy"
    return "lazy"


def consumes_at_execute(rel) -> bool:
    import lsst.daf.relation as R

    if isinstance(rel, R.UnaryOperationRelation):
        return isinstance(rel.operation, (R.Sort, R.Deduplication))
    if isinstance(rel, R.Materialization):
        # an already materialized input is returned as is (MaterializedRowIterable.materialized)
        return result_kind(rel.target) == "lazy"
    return False


def occurrences(rel, under_eager=False):
    """Counter leaf name -> [lazy occurrences, occurrences consumed at execute time], over the
    library tree (every path counts: a shared operand occurs once per use)."""
    import lsst.daf.relation as R
    from .. import interp

    out = collections.defaultdict(lambda: [0, 0])
    if isinstance(rel, R.LeafRelation):
        out[rel.name][1 if under_eager else 0] += 1
        return out
    eager_here = under_eager or consumes_at_execute(rel)
    for k in interp.children(rel):
        for name, (a, b2) in occurrences(k, eager_here).items():
            out[name][0] += a
            out[name][1] += b2
    return out


def occurrences_outside_cached_materializations(rel):
    """Leaf name -> number of occurrences that a *second* execute()+pass may touch again: everything
    except what lies below a Materialization whose rows are held in a collection of their own (they
    are cached on the node after the first execute; only a materialization of a bare leaf hands out
    the leaf's payload object itself)."""
    import lsst.daf.relation as R
    from .. import interp

    out = collections.defaultdict(int)
    if isinstance(rel, R.LeafRelation):
        out[rel.name] += 1
        return out
    if isinstance(rel, R.Materialization) and result_kind(rel) == "seq":
        # its rows were gathered (by itself, or by the sort / deduplication right below it) into a
        # collection of their own and cached on the node by the first execute()
        return out
    for k in interp.children(rel):
        for name, n in occurrences_outside_cached_materializations(k).items():
            out[name] += n
    return out


def run_case(case):
    import lsst.daf.relation as R

    out = {"counters": {}, "violations": []}
    c = out["counters"]
    prog = case["prog"]
    label = model.show(prog)
    m = model.Model(case["leaves"], key_dedup=True)
    try:
        want = m.eval(prog)
    except model.Skip as s:
        out["skip"] = s.reason
        return out
    engines = make_engines(("it", "it2"))
    b = Builder(case["leaves"], engines, counting="with_mappings")
    try:
        rel = b.build(prog)
    except BuildFailure as f:
        out["violations"].append({"kind": "rejected_valid_program", "detail": f"{exc_str(f.exc)} at {model.show(f.prog)}"})
        return out
    occ = occurrences(rel)
    from .. import interp
    from ..dbx import CountingMapping

    # a deduplication directly over a RowMapping leaf returns the payload itself when its key is the
    # mapping's own key (an implementation detail of which tuple order the engine asks for): for such
    # leaves the iteration counts are not asserted, only the rows
    lenient = set()
    for n in interp.walk(rel):
        if isinstance(n, R.UnaryOperationRelation) and isinstance(n.operation, R.Deduplication):
            t = n.target
            while isinstance(t, R.MarkerRelation) and t.payload is None:
                t = t.target
            if isinstance(t, R.LeafRelation) and isinstance(t.payload, CountingMapping):
                lenient.add(t.name)
    if any(isinstance(p, CountingMapping) for p in b.leaf_payloads.values()):
        c["programs_with_mapping_leaves"] = 1

    has_eager = any(consumes_at_execute(n) for n in interp.walk(rel))

    def starts():
        return {name: p.starts for name, p in b.leaf_payloads.items() if name not in lenient}

    def delta(a, b2):
        return {k: b2[k] - a.get(k, 0) for k in b2}

    s0 = starts()
    if any(s0.values()):
        out["violations"].append({"kind": "leaf_iterated_while_building", "detail": f"{label}: {s0}"})

    def faulted_attempt():
        """execute() + one pass while one leaf fails half-way; returns True if the fault fired."""
        from ..dbx import InjectedFault

        fl = case["fault"]
        names = sorted(b.leaf_payloads)
        pl = b.leaf_payloads[names[fl["leaf"] % len(names)]]
        if not hasattr(pl, "fail_at"):
            return False
        pl.fail_at = min(fl["at"], len(pl))
        try:
            names_rows(rel.engine.execute(rel))
            return False
        except InjectedFault:
            c["faulted_evaluations"] = c.get("faulted_evaluations", 0) + 1
            return True
        finally:
            pl.fail_at = None

    if case.get("fault") and case["fault"]["first"]:
        try:
            faulted_attempt()
        except Exception as exc:  # noqa: BLE001
            out["violations"].append({"kind": "execute_raised", "detail": f"{label} (while a leaf was failing): {exc_str(exc)}"})
            return out
        s0 = starts()  # what the failed attempt read does not count; everything below is judged as usual
    try:
        rows = rel.engine.execute(rel)
    except Exception as exc:  # noqa: BLE001
        out["violations"].append({"kind": "execute_raised", "detail": f"{label}: {exc_str(exc)}"})
        return out
    s1 = starts()
    d_exec = delta(s0, s1)
    for name, n in d_exec.items():
        lazy, eager = occ.get(name, [0, 0])
        if n > eager:
            kind = "execute_iterated_leaf_of_lazy_program" if not has_eager else "execute_consumed_input_more_than_once"
            out["violations"].append({"kind": kind, "detail": f"{label}: execute() started {n} iterations of {name} (occurrences below an eager node: {eager}, lazy: {lazy}); tree {short(rel, 300)}"})
    prev = s1
    passes = []
    for i in range(3):
        try:
            got = names_rows(rows)
        except Exception as exc:  # noqa: BLE001
            out["violations"].append({"kind": "iteration_raised", "detail": f"{label} pass {i + 1}: {exc_str(exc)}"})
            return out
        cur = starts()
        d = delta(prev, cur)
        prev = cur
        passes.append(got)
        c["passes_checked"] = c.get("passes_checked", 0) + 1
        for name, n in d.items():
            lazy, eager = occ.get(name, [0, 0])
            if n > lazy:
                kind = "pass_started_more_than_one_iteration_per_occurrence" if not eager else "pass_reiterated_input_of_eager_operation"
                out["violations"].append({"kind": kind, "detail": f"{label}: pass {i + 1} started {n} iterations of {name} (lazy occurrences {lazy}, below eager {eager}); tree {short(rel, 300)}"})
    # ---- an iterator abandoned half-way (a consumer that stops early), then a full pass: the
    # result must be re-iterable with identical rows, and again at most one start per lazy occurrence
    k = case.get("abandon_after")
    if k is not None:
        try:
            it = iter(rows)
            for _ in range(k):
                next(it, None)
            del it
            cur = starts()
            prev = cur
            full = names_rows(rows)
        except Exception as exc:  # noqa: BLE001
            out["violations"].append({"kind": "iteration_raised", "detail": f"{label} after an abandoned iterator: {exc_str(exc)}"})
            return out
        cur = starts()
        d = delta(prev, cur)
        prev = cur
        c["passes_after_abandoned_iterator"] = 1
        if full != passes[0]:
            out["violations"].append({"kind": "pass_after_abandoned_iterator_differs", "detail": f"{label}: after abandoning an iterator at row {k}: {short(full, 200)} vs {short(passes[0], 200)}"})
        for name, n in d.items():
            lazy, eager = occ.get(name, [0, 0])
            if n > lazy:
                out["violations"].append({"kind": "pass_started_more_than_one_iteration_per_occurrence", "detail": f"{label}: the pass after an abandoned iterator started {n} iterations of {name} (lazy occurrences {lazy})"})
    # ---- a second execute(): cached materializations must not touch their input again
    occ2 = occurrences_outside_cached_materializations(rel)
    try:
        again = names_rows(rel.engine.execute(rel))
    except Exception as exc:  # noqa: BLE001
        out["violations"].append({"kind": "second_execute_raised", "detail": f"{label}: {exc_str(exc)}"})
        return out
    cur = starts()
    d2 = delta(prev, cur)
    prev = cur
    c["second_executes_checked"] = 1
    for name, n in d2.items():
        if n > occ2.get(name, 0):
            out["violations"].append({"kind": "second_execute_reevaluated_materialized_input", "detail": f"{label}: a second execute()+pass started {n} iterations of {name}, at most {occ2.get(name, 0)} allowed (the rest lies below a materialization whose rows are cached); tree {short(rel, 300)}"})
    if again != passes[0]:
        out["violations"].append({"kind": "second_execute_differs", "detail": f"{label}: {short(again, 200)} vs {short(passes[0], 200)}"})
    if case.get("fault") and not case["fault"]["first"]:
        try:
            fired = faulted_attempt()
            after_fault = names_rows(rel.engine.execute(rel))
        except Exception as exc:  # noqa: BLE001
            out["violations"].append({"kind": "execute_raised", "detail": f"{label} (during / after a failing leaf): {exc_str(exc)}"})
            return out
        if after_fault != passes[0]:
            out["violations"].append({"kind": "rows_differ_after_failed_evaluation", "detail": f"{label}: {short(after_fault, 200)} vs {short(passes[0], 200)} (fault fired: {fired})"})
        prev = starts()
    if passes[0] != want.rows:
        out["violations"].append({"kind": "rows_differ", "detail": f"{label}: {short(passes[0], 250)} vs {short(want.rows, 250)}"})
    if passes[1] != passes[0] or passes[2] != passes[0]:
        out["violations"].append({"kind": "repeated_iteration_differs", "detail": f"{label}: pass1 {short(passes[0], 200)} pass2 {short(passes[1], 200)} pass3 {short(passes[2], 200)}"})
    c["leaf_iteration_starts_observed"] = sum(prev.values())
    c["eager_programs" if has_eager else "lazy_only_programs"] = 1
    nops = sum(1 for s in model.subprograms(prog) if s[0] != "leaf")
    if nops >= 2:
        out["sig"] = f"{gen.op_signature(prog)}:{'eager' if has_eager else 'lazy'}"
        out["sample"] = {"program": label, "starts_during_execute": d_exec, "starts_total_after_3_passes": prev, "occurrences_lazy_eager": {k: v for k, v in occ.items()}}
    return out
