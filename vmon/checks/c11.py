"""C11 - the SQL engine honours sort order for slices and trailing sorts, or refuses."""
from __future__ import annotations

from .. import bootstrap, gen, interp, model, multi
from ..common import exc_str, names_rows, short
from ..dbx import DB, BuildFailure, Builder, make_engines
from ..monitors import structure

bootstrap.ensure()

ID = "C11"
LEVEL = "exploration"
TECHNIQUE = "runtime monitoring: ordered differential execution on SQLite under both scan orders + per-call refusal monitor"
RULE = (
    "seeded random SQL-engine programs saturated with sorts (total and partial) and slices in every position relative "
    "to projection (keeping / dropping the sort key), deduplication, selection, calculation, slice-after-slice, then "
    "joins, chains and materializations of sorted operands; executed on SQLite under both scan orders with shuffled "
    "insertion.  (a) gate = outermost Select carries the sort AND the model says the order is total and its key "
    "columns are still visible: the fetched LIST must equal the model list; (b) every slice applied to a relation "
    "satisfying the gate must return exactly rows [start,stop) of the model order (sub-program executed on its own); "
    "(c) structural monitor on every returned tree: a Select with a sort and no slice (possibly wrapped in slot-less "
    "Selects) must never be an operand of a join/chain node or the target of a materialization - the engine has to "
    "raise the documented error instead.  Non-trivial = gate held or a refusal / buried-sort situation arose; "
    "distinct = program skeleton x outcome."
    "  A second model instance composes back-to-back sorts stably (new terms first, earlier terms as tie-breakers, "
    "as documented for Sort.then); where the order is total only through such earlier terms it is asserted only "
    "if the tree holds exactly one Sort node, i.e. the engine merged every sort into the outermost ORDER BY. "
    "  Directly adjacent sorts in the program are documented to merge (new terms first): where their concatenated terms order the rows totally, the order - and any slice of it - is asserted whatever the tree looks like; 5 % of the cases are directed pairs of adjacent sorts (plain column terms, then expression terms) on a chain or a table. "
    "  2 % directed cases: a totally sorted (optionally sliced) table projected onto no columns, compiled with to_executable(extra_columns=<the table's own columns>): the fetched extra columns must come in the sort's order and window. "
)
ASSUMPTIONS = [
    "SQLite retains sub-query order in practice, so an order lost in a sub-query is not observable on this database: "
    "order is asserted only where the outermost query carries the ORDER BY; elsewhere agreement is only recorded",
    "reference model vmon/model.py (stable comparator sort); ties between non-identical rows make the order undefined",
]
MIN_OBS = {"ordered_lists_compared": 200, "slices_after_total_sort_checked": 100, "order_loss_refusals": 50, "trees_structurally_checked": 500}
CASE_TIMEOUT = 60


def budget(tier):
    if tier == "quick":
        return {"cases": 40000, "workers": 8, "watchdog_s": 1800}
    return {"cases": 1600000, "workers": 16, "watchdog_s": 3600, "budget_s": 600}


def gen_case(rng, tier):
    cfg = gen.Cfg(
        engines=("sql",),
        ops=("calc", "proj", "sel", "dedup", "sort", "slice", "chain", "join", "mat"),
        weights={"sort": 3.0, "slice": 2.5, "proj": 1.5, "dedup": 1.2, "chain": 0.7, "join": 0.7, "mat": 0.5},
        max_depth=2 if tier == "quick" or rng.random() < 0.6 else 3,
        # mostly sorts that are total on their own; one case in three has partial sorts, whose
        # order becomes total only through an earlier sort's terms (composed ORDER BY)
        total_sort_prob=rng.choice([0.75, 0.75, 0.25]),
        raw_leaves=False,
        special_leaves=False,
        max_rows_choices=(0, 2, 3, 5, 8),
    )
    g = gen.Gen(rng, cfg)
    if rng.random() < 0.02:
        # directed: a sorted (and sliced) table projected onto NO columns, compiled with
        # to_executable(extra_columns=...): the caller's own columns make the rows distinguishable, so
        # the order and the window still have to be those of the sort
        cols = sorted(rng.sample("abcd", rng.randint(2, 3)))
        st = g.leaf("sql", want_cols=cols, allow_special=False)
        cl = sorted(st[1])
        terms = [[["ref", c], rng.random() < 0.5] for c in cl]
        rng.shuffle(terms)
        st = (["sort", st[0], terms, None], st[1], "sql")
        if rng.random() < 0.7:
            start = rng.choice([0, 1, 2])
            st = (["slice", st[0], start, start + rng.choice([1, 2, 4])], st[1], "sql")
        inner = st[0]
        st = (["proj", st[0], [], None], frozenset(), "sql")
        case = gen.case_from(g, st)
        case["extra_columns_probe"] = {"inner": inner, "cols": cl}
        return case
    if rng.random() < 0.05:
        # directed: two directly adjacent sorts (plain column terms, then terms that may be
        # expressions) on a chain or a single table, optionally followed by a slice
        cols = sorted(rng.sample("abcd", rng.randint(2, 3)))
        st = g.leaf("sql", want_cols=cols, allow_special=False)
        if rng.random() < 0.7:
            other = g.leaf("sql", want_cols=sorted(st[1]), allow_special=False)
            if other[1] == st[1]:
                st = (["chain", st[0], other[0]], st[1], "sql")
        cl = sorted(st[1])
        first = [[["ref", c], rng.random() < 0.5] for c in rng.sample(cl, rng.randint(1, len(cl) - 1))]
        rest = [c for c in cl if c not in {t[0][1] for t in first}]
        e = ["ref", rng.choice(rest)]
        second = [[rng.choice([["neg", e], ["mul", e, e], e, ["add", e, ["lit", 1]]]), rng.random() < 0.5]]
        st = (["sort", ["sort", st[0], first, None], second, None], st[1], "sql")
        if rng.random() < 0.4:
            st = g.unary(st, "slice") or st
        return gen.case_from(g, st)
    return gen.case_from(g, g.tree())


def gate(rel, mrel) -> bool:
    from lsst.daf.relation import sql

    return isinstance(rel, sql.Select) and rel.has_sort and mrel.det and mrel.sort_visible


def sort_nodes(rel) -> int:
    import lsst.daf.relation as R

    return sum(1 for n in interp.walk(rel) if isinstance(n, R.UnaryOperationRelation) and isinstance(n.operation, R.Sort))


def adjacent_sorts(sub) -> bool:
    """The program node is a sort applied directly to a sort (documented to merge into one sort with
    the new terms first: Sort.then), possibly under trailing projections / slices that keep order."""
    while sub[0] in ("proj", "slice"):
        sub = sub[1]
    return sub[0] == "sort" and sub[1][0] == "sort" and bool(sub[2]) and bool(sub[1][2])


def gate_stable(rel, mrel_stable, adjacent=False) -> bool:
    """Back-to-back sorts: the order is total only through the earlier sort's terms acting as
    tie-breakers.  Asserted only when the engine kept every sort of the program at the outermost
    query level (exactly one Sort node in the whole tree - the Select's own, which then has to
    hold the composed terms); a sort nested in a sub-query gives no such guarantee.  Directly
    adjacent sorts (``adjacent``) are documented to merge, so their composed order is asserted
    whatever the tree looks like."""
    return gate(rel, mrel_stable) and (sort_nodes(rel) == 1 or adjacent)


def run_case(case):
    import lsst.daf.relation as R

    out = {"counters": {}, "violations": []}
    c = out["counters"]
    prog = case["prog"]
    label = model.show(prog)
    db = DB(shim=True)
    try:
        engines = make_engines(("sql",))
        b = Builder(case["leaves"], engines, db)
        refused = False
        rel = None
        try:
            rel = b.build(prog)
        except BuildFailure as f:
            if isinstance(f.exc, R.RelationalAlgebraError) and "will not preserve row order" in str(f.exc):
                c["order_loss_refusals"] = 1
                refused = True
            else:
                out["violations"].append({"kind": "rejected_valid_program", "detail": f"{exc_str(f.exc)} at {model.show(f.prog)}"})
                return out
        probe = case.get("extra_columns_probe")
        if probe and rel is not None:
            from ..tags import T

            try:
                inner = probe["inner"]
                leaf_name = inner[1][1][1] if inner[0] == "slice" else inner[1][1]
                tbl = b.leaf_payloads[leaf_name].from_clause
                extra = [tbl.columns[x].label(f"x_{x}") for x in probe["cols"]]
                ex = engines["sql"].to_executable(rel, extra_columns=extra)
                got = [tuple(r[f"x_{x}"] for x in probe["cols"]) for r in db.conn.execute(ex).mappings()]
                want_p = model.Model(case["leaves"], sql_slices=True).eval(inner)
                c["extra_columns_probes"] = 1
                if got != [tuple(r[x] for x in probe["cols"]) for r in want_p.rows]:
                    out["violations"].append({"kind": "order_not_honoured_with_extra_columns", "detail": f"{label} compiled with extra_columns: got {short(got, 200)} want {short([tuple(r[x] for x in probe['cols']) for r in want_p.rows], 200)}; sql {short(db.text(ex), 300)}"})
            except model.Skip:
                pass
            except Exception as exc:  # noqa: BLE001
                out["violations"].append({"kind": "extra_columns_compile_raised", "detail": f"{label}: {exc_str(exc)}"})
        # (c) structure of everything that was built (also the parts built before a refusal)
        for sub, subrel in b.nodes:
            c["trees_structurally_checked"] = c.get("trees_structurally_checked", 0) + 1
            # the engine accepted this call: none of its operands may have carried a sort without a
            # slice at its outermost query level (looking through slot-less Select wrappers)
            if sub[0] in ("join", "chain", "mat"):
                for operand in ([sub[1], sub[2]] if sub[0] != "mat" else [sub[1]]):
                    orel = b.memo.get(repr(operand))
                    if orel is not None and structure.effectively_sorted_without_slice(orel):
                        out["violations"].append({"kind": f"sort_without_slice_buried_under_{sub[0]}", "detail": f"{model.show(sub)}: operand {short(orel, 200)} carries a sort and no slice, yet the call returned {short(subrel, 200)}"})
            # sorts that an earlier (permitted) nesting had already put into a sub-query are only counted
            if structure.buried_sorts(subrel):
                c["sorts_already_nested_deeper_counted"] = c.get("sorts_already_nested_deeper_counted", 0) + 1
        outcome = "refused" if refused else "built"
        m = model.Model(case["leaves"], sql_slices=True, strict_fragile=True)
        # same rows, but back-to-back sorts compose stably; only trusted where gate_stable() holds
        ms = model.Model(case["leaves"], sql_slices=True, strict_fragile=True, stable_sorts=True)
        has_mat = "m" in gen.op_signature(prog)

        def plain(p):
            try:
                return m.eval(p)
            except model.Skip:
                return None

        for sub, subrel in b.nodes:
            try:
                want = ms.eval(sub)
            except model.Skip:
                c["skipped_nondeterministic"] = c.get("skipped_nondeterministic", 0) + 1
                break
            is_root = sub is b.nodes[-1][0] and not refused
            child_gate = False
            if sub[0] == "slice":
                child = b.memo.get(repr(sub[1]))
                pc, sc = plain(sub[1]), ms.eval(sub[1])
                if pc is not None:
                    child_gate = child is not None and gate(child, pc)
                if not child_gate and (pc is None or not pc.det) and sc.det:
                    # the slice is deterministic only because an earlier sort breaks the ties of
                    # a later one: that needs both sorts at the outermost query level
                    if child is not None and gate_stable(child, sc, adjacent_sorts(sub[1])):
                        child_gate = True
                        c["slices_after_composed_sorts_checked"] = c.get("slices_after_composed_sorts_checked", 0) + 1
                    elif not model.slice_order_independent(sc.rows, sub[2], sub[3]):
                        c["skipped_nondeterministic"] = c.get("skipped_nondeterministic", 0) + 1
                        break
            if not (is_root or child_gate):
                continue
            pw = plain(sub)
            for reverse in (False, True):
                db.conn.exec_driver_sql(f"PRAGMA reverse_unordered_selects={int(reverse)}")
                try:
                    if has_mat:
                        got, _, _ = multi.evaluate(subrel, db)
                    else:
                        got = names_rows(db.run(subrel))
                except Exception as exc:  # noqa: BLE001
                    if has_mat and multi.prune_order_loss(subrel, exc):
                        c["process_time_order_refusal_known_finding"] = c.get("process_time_order_refusal_known_finding", 0) + 1
                        out["skip"] = "process_time_order_refusal"
                        return out
                    out["violations"].append({"kind": "execution_raised", "detail": f"{exc_str(exc)} for {model.show(sub)} tree {short(subrel, 300)}"})
                    return out
                if child_gate:
                    c["slices_after_total_sort_checked"] = c.get("slices_after_total_sort_checked", 0) + 1
                    outcome = "slice_after_total_sort"
                    if model.canon(got) != model.canon(want.rows):
                        out["violations"].append({"kind": "slice_of_sorted_relation_wrong_rows", "detail": f"{model.show(sub)} tree {short(subrel, 300)} got {short(got, 300)} want {short(want.rows, 300)} (reverse={int(reverse)})"})
                        return out
                if pw is not None and gate(subrel, pw):
                    c["ordered_lists_compared"] = c.get("ordered_lists_compared", 0) + 1
                    outcome = "ordered" if outcome == "built" else outcome
                    if got != want.rows:
                        out["violations"].append({"kind": "order_not_honoured", "detail": f"{model.show(sub)} tree {short(subrel, 300)} sql {short(db.text(engines['sql'].to_executable(subrel)), 400) if not has_mat else ''} got {short(got, 300)} want {short(want.rows, 300)} (reverse={int(reverse)})"})
                        return out
                elif gate_stable(subrel, want, adjacent_sorts(sub)):
                    c["ordered_lists_compared_composed_sorts"] = c.get("ordered_lists_compared_composed_sorts", 0) + 1
                    outcome = "ordered_by_composed_sorts" if outcome == "built" else outcome
                    if got != want.rows:
                        out["violations"].append({"kind": "composed_sort_order_not_honoured", "detail": f"{model.show(sub)} tree {short(subrel, 300)} got {short(got, 300)} want {short(want.rows, 300)} (reverse={int(reverse)})"})
                        return out
                elif is_root:
                    c["root_order_not_asserted"] = c.get("root_order_not_asserted", 0) + 1
                    if model.canon(got) != model.canon(want.rows):
                        out["violations"].append({"kind": "rows_differ", "detail": f"{model.show(sub)} tree {short(subrel, 300)} got {short(model.canon(got), 300)} want {short(model.canon(want.rows), 300)}"})
                        return out
                    if want.det and got == want.rows:
                        c["unasserted_order_agreed_anyway"] = c.get("unasserted_order_agreed_anyway", 0) + 1
        if outcome != "built":
            out["sig"] = f"{gen.op_signature(prog)}:{outcome}"
            out["sample"] = {"program": label, "outcome": outcome, "tree": short(rel, 200) if rel is not None else None}
        return out
    finally:
        db.close()
