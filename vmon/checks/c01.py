"""C01 - the iteration engine executes the applied operation sequence exactly."""
from __future__ import annotations

from .. import gen, model
from ..common import exc_str, names_rows, rewrite_counters, short, typed
from ..dbx import BuildFailure, Builder, make_engines

ID = "C01"
LEVEL = "exploration"
TECHNIQUE = "runtime monitoring: differential execution of iteration.Engine.execute against a reference model on generated programs"
RULE = (
    "seeded random programs of factory calls (calculation, projection, selection, deduplication, sort, slice, "
    "chain, materialization, iteration->iteration transfer) over leaves with 0-3 key/non-key columns, 0-11 rows, "
    "duplicates, zero-column, doomed and join-identity leaves and loose declared bounds; each is built through the "
    "public API, executed by iteration.Engine.execute and compared as an ordered list with the reference model "
    "evaluated on the call sequence.  A case is non-trivial if it applies >= 2 operations; distinct = distinct "
    "operation-type skeletons x set of rewrite kinds (merge/elision) the library performed."
    "  Since round 5-7 of the seeded-change validation the programs also contain user-defined operations and "
    "markers (a count-dependent RowFilter, an order-dependent Reordering, a MarkerRelation subclass; run by an "
    "iteration.Engine subclass implementing apply_custom_unary_operation), chains of a program with its twin over "
    "equal-named leaves, two branches adding the same column over one shared operand, and leaves whose payload is "
    "a lazily chained iterable; result rows are collected as objects before they are compared.  8 % of the levels stack "
    "5-9 unary operations, 15 % of the binary operations are immediately followed by another one (three-way chains), "
    "and 15 % of the cases mix int / float / bool / -0.0 representations of equal numbers in the leaf rows, compared "
    "type-sensitively, so which of several equal rows a deduplication or a stable sort lets through is observable; "
    "20 % of the numeric literals are floats / bools equal to the integer drawn and 12 % of the calculations and "
    "selections reuse an earlier expression of the case with its literals re-typed (expressions that compare equal "
    "without being the same).  Unary factory calls downstream of an iteration-to-iteration transfer carry a preferred "
    "engine with backtracking in 30 % of the cases (the model ignores it: where the library puts the operation must not matter). "
)
ASSUMPTIONS = [
    "reference model vmon/model.py (full-row first-occurrence deduplication, stable multi-key sort via comparator)",
    "cases where key-only and full-row deduplication differ on the actual data (non-key columns not functionally "
    "dependent on keys) are outside ColumnTag.is_key's documented contract and are discarded and counted",
]
MIN_OBS = {"compared": 200, "programs_with_8_or_more_operations": 20, "mixed_numeric_types": 20, "elided_or_merged_Slice": 5, "elided_or_merged_Sort": 5, "elided_or_merged_Projection": 5, "elided_or_merged_Selection": 3}
CFG = dict(
    engines=("it", "it2"),
    ops=("calc", "proj", "sel", "dedup", "sort", "slice", "chain", "mat", "mark", "cap", "rev"),
    weights={"slice": 1.6, "sort": 1.4, "proj": 1.2, "sel": 1.3, "mark": 0.4, "cap": 0.4, "rev": 0.4},
    xfer_prob=0.06,
    total_sort_prob=0.35,
    tall_prob=0.08,
    wide_prob=0.15,
    flavour_prob=0.15,
    lookalike_prob=0.12,
)


def budget(tier):
    if tier == "quick":
        return {"cases": 100000, "workers": 8, "watchdog_s": 1800}
    return {"cases": 4000000, "workers": 16, "watchdog_s": 3600, "budget_s": 600}


def gen_case(rng, tier):
    from .. import exprs

    exprs.LIT_KINDS = 0.2  # float / bool literals equal to the integer drawn; results are compared type-sensitively
    if rng.random() < 0.03:
        # directed: a sort requested with a preferred engine on top of `... -> transfer -> sort`
        # (new terms: expressions over / flipped / a superset of the existing sort's terms)
        from . import c03

        d = c03.sort_over_sort_case(rng)
        prog = ["sort", d["prog"], d["final"]["node"][2], {"pe": "it", "bt": True, "tr": False, "rq": False}]
        return {"leaves": d["leaves"], "prog": prog, "cols": d["cols"], "engine": d["engine"]}
    cfg = gen.Cfg(**CFG, max_depth=2 if tier == "quick" or rng.random() < 0.6 else 3)
    g = gen.Gen(rng, cfg)
    state = g.tree()
    if rng.random() < 0.12:
        # equal-but-distinct operands: the same program over leaves with the same name/columns/engine
        state = gen.chain_with_name_twin(g, state, rng) or state
        for _ in range(rng.randint(0, 2)):
            state = g.unary(state, rng.choice(["sel", "slice", "sort", "dedup", "proj"])) or state
    case = gen.case_from(g, state)
    # factory calls downstream of an iteration-to-iteration transfer may name a preferred engine
    # (not projections: a projection moved upstream of a deduplication is the recorded known finding
    # KF-proj-dedup, which C03 / C04 classify from the commute() calls they observe)
    case["prog"], _ = gen.sprinkle_options(case["prog"], rng, ("it", "it2"), 0.3, kinds=("calc", "sel", "dedup", "sort"))
    return case


def run_case(case):
    out = {"counters": {}, "violations": []}
    prog = case["prog"]
    m = model.Model(case["leaves"], key_dedup=True)
    try:
        want = m.eval(prog)
    except model.Skip as s:
        out["skip"] = s.reason
        return out
    engines = make_engines(("it", "it2"))
    b = Builder(case["leaves"], engines)
    try:
        rel = b.build(prog)
    except BuildFailure as f:
        out["violations"].append({"kind": "rejected_valid_program", "detail": f"{exc_str(f.exc)} at {model.show(f.prog)}"})
        return out
    try:
        got1 = names_rows(rel.engine.execute(rel))
        got2 = names_rows(rel.engine.execute(rel))
    except Exception as exc:  # noqa: BLE001
        out["violations"].append({"kind": "execute_raised", "detail": f"{exc_str(exc)} for {short(rel)}"})
        return out
    out["counters"]["compared"] = 1
    rw = rewrite_counters(prog, rel)
    out["counters"].update(rw)
    if got1 == want.rows and typed(got1) != typed(want.rows):
        out["violations"].append({
            "kind": "rows_differ_in_value_type",
            "detail": f"program {model.show(prog)} tree {short(rel)} got {short(got1, 400)} want {short(want.rows, 400)}",
        })
    elif got1 != want.rows:
        out["violations"].append({
            "kind": "rows_differ",
            "detail": f"program {model.show(prog)} tree {short(rel)} got {short(got1, 400)} want {short(want.rows, 400)}",
        })
    elif got2 != got1 or typed(got2) != typed(got1):
        out["violations"].append({"kind": "second_execution_differs", "detail": model.show(prog)})
    if {t.qualified_name for t in rel.columns} != set(want.cols):
        out["violations"].append({"kind": "columns_differ", "detail": f"{model.show(prog)}: {rel.columns} vs {sorted(want.cols)}"})
    nops = sum(1 for s in model.subprograms(prog) if s[0] != "leaf")
    if nops >= 8:
        out["counters"]["programs_with_8_or_more_operations"] = 1
    if any(type(v) is not int for sp in case["leaves"].values() for r in sp["rows"] for v in r):
        out["counters"]["mixed_numeric_types"] = 1
    if nops >= 2:
        out["sig"] = gen.op_signature(prog) + "|" + ",".join(sorted(rw))
        out["sample"] = {"program": model.show(prog), "library_tree": short(rel, 200), "rows": len(got1), "rewrites": sorted(rw)}
    return out
