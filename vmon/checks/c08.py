"""C08 - every tree the factories accept can be compiled and executed."""
from __future__ import annotations

from .. import bootstrap, gen, interp, model
from ..common import exc_str, short
from ..dbx import DB, BuildFailure, Builder, make_engines

bootstrap.ensure()

ID = "C08"
LEVEL = "exploration"
TECHNIQUE = "runtime monitoring: exception-phase oracle over generated well-typed programs (plain SQLite grammar)"
RULE = (
    "seeded random well-typed programs in either engine, weighted towards joins/chains of arbitrarily built operands "
    "(nested chains, chains of joins, joins of chains) and towards sorts followed by projections, chains and "
    "calculations; only the phase and class of exceptions is judged: a ColumnError / EngineError / documented "
    "row-order-loss error at a factory call is an accepted rejection, any other exception class there, and ANY "
    "exception from Engine.to_executable, the database (plain SQLite grammar, no shim), iteration.Engine.execute or "
    "full iteration of the result, is a violation.  Non-trivial = >= 2 operations and fully executed; distinct = "
    "engine x program skeleton."
    "  One case in ten ends in an operation whose expression uses a function that exists in one engine kind only "
    "(Engine.functions), alone or nested in/around portable functions: construction may refuse it (EngineError) "
    "but whatever it accepts has to execute. "
    "  15 % of the cases span the SQL engine and two iteration engines (transfers, materializations, transfers into SQL used directly as chain operands): they are processed by a real Processor and executed in their final engine, twice. "
    "  3 % directed cases use two key columns whose qualified names are 87 and 92 characters long and share their first 72 characters. "
)
ASSUMPTIONS = [
    "SQLite 3 stands in for 'the target database'; no grammar shim is installed for this check",
    "known findings are classified by mechanism: KF-sqlite-nested-union needs a compound Select directly inside a "
    "compound Select AND the same tree to execute under the shim; KF-iteration-join needs a Join node in an iteration "
    "engine AND the exact documented EngineError",
]
MIN_OBS = {"executed_ok": 500, "long_column_name_cases_executed": 100, "multi_engine_executed_ok": 200, "sql_executed_ok": 200, "iteration_executed_ok": 200, "with_binary": 150}
CASE_TIMEOUT = 60


def budget(tier):
    if tier == "quick":
        return {"cases": 50000, "workers": 8, "watchdog_s": 1800}
    return {"cases": 2000000, "workers": 16, "watchdog_s": 3600, "budget_s": 600}


def gen_case(rng, tier):
    engine = rng.choice(["it", "sql", "sql"])
    deep = not (tier == "quick" or rng.random() < 0.5)
    if rng.random() < 0.15:
        # trees spanning several engines: "compiled and executed" then means processed by a real
        # Processor (transfers, materializations) and executed in the final engine
        cfg = gen.Cfg(engines=("sql", "it", "it2"), ops=("calc", "proj", "sel", "dedup", "sort", "slice", "chain", "join", "mat"), xfer_prob=0.3,
                      raw_leaves=False, weights={"chain": 1.8, "join": 0.8, "mat": 1.2}, sort_then_slice_prob=0.4, max_depth=3 if deep else 2)
        g = gen.Gen(rng, cfg)
        state = g.tree()
        if rng.random() < 0.5:
            # a transfer into SQL used directly as a chain operand / as the whole tree
            st = g.to_engine(state, "sql")
            other = g.tree(1, "sql", want_cols=st[1]) if rng.random() < 0.6 else st
            other = g.to_engine(other, "sql")
            state = ((["chain", st[0], other[0]] if rng.random() < 0.5 else ["chain", other[0], st[0]]), st[1], "sql") if rng.random() < 0.7 else st
        case = gen.case_from(g, state)
        case["engine"] = "multi"
        return case
    if rng.random() < 0.03:
        # directed: columns with long names that share a long prefix (whatever an engine does to make
        # identifiers fit must keep them apart), in either engine
        eng = rng.choice(["sql", "sql", "it"])
        cfg = gen.Cfg(engines=(eng,), special_leaves=False, raw_leaves=False, leaf_cols="pq", nonkeys=False, ops=("proj", "sel", "dedup", "sort", "slice", "chain", "join") if eng == "sql" else ("proj", "sel", "dedup", "sort", "slice", "chain"), max_depth=1)
        g = gen.Gen(rng, cfg)
        st = g.leaf(eng, want_cols=["p", "q"], allow_special=False)
        for _ in range(rng.randint(1, 4)):
            op = g.pick_op(("sel", "sort", "slice", "dedup", "proj", "sel", "sort"))
            st = g.unary(st, op) or st
        if eng == "sql" and st[1] and rng.random() < 0.6:
            other = g.leaf(eng, want_cols=sorted(st[1])[:1], allow_special=False)
            st = (["join", st[0], other[0], None, None], st[1] | other[1], eng)
            for _ in range(rng.randint(0, 2)):
                st = g.unary(st, g.pick_op(("sel", "sort", "slice"))) or st
        case = gen.case_from(g, st)
        case["engine"] = eng
        case["long_names"] = True
        return case
    if engine == "it":
        cfg = gen.Cfg(engines=("it", "it2"), ops=("calc", "proj", "sel", "dedup", "sort", "slice", "chain", "mat", "join"), xfer_prob=0.05,
                      weights={"chain": 1.5, "join": 0.25, "sort": 1.4, "slice": 1.4}, max_depth=3 if deep else 2)
    else:
        cfg = gen.Cfg(engines=("sql",), ops=("calc", "proj", "sel", "dedup", "sort", "slice", "chain", "join"), raw_leaves=False,
                      weights={"chain": 2.0, "join": 2.0, "sort": 1.6, "proj": 1.4}, sort_then_slice_prob=0.45, max_depth=3 if deep else 2,
                      total_sort_prob=0.4)
    g = gen.Gen(rng, cfg)
    # the generator skips joins outside SQL; force some for the iteration engine on purpose
    state = g.tree()
    if engine == "it" and rng.random() < 0.12:
        other = g.leaf(state[2], want_cols=sorted(state[1])[:1])
        state = (["join", state[0], other[0], None, None], state[1] | other[1], state[2])
    if rng.random() < 0.1:
        # a join requested through an explicit Join operation with resolved equality columns drawn
        # at random (the operands may lack them: then construction has to refuse, otherwise the
        # accepted tree has to compile and execute like any other)
        other = g.leaf(state[2], want_cols=rng.sample("abcd", rng.randint(1, 2)), allow_special=False)
        jopt = {"minmax": rng.sample("abcd", rng.randint(1, 2)), "partial": rng.random() < 0.7, "is_lhs": rng.random() < 0.3}
        state = (["join", state[0], other[0], None, jopt], state[1] | other[1], state[2])
    if state[1] and rng.random() < 0.1:
        # an operation whose expression uses a function that exists in one engine kind only
        # (Engine.functions), alone or nested in / around portable functions.  Where it belongs to
        # the other engine kind, construction has to refuse (EngineError); whatever construction
        # accepts has to execute.
        prog, cols, eng = state
        kind = "sql" if eng.startswith("sql") else "it"
        fn = rng.choice(["only_sql", "only_it"])
        restr = ["sql"] if fn == "only_sql" else ["it"]
        col = rng.choice(sorted(cols))
        e = ["rfn", fn, [["ref", col]], restr]
        r = rng.random()
        if r < 0.3:
            e = ["rfn", "add", [e, ["lit", 1]], ["sql", "it"]]  # inside a function that declares support everywhere
        elif r < 0.5:
            e = ["sub", ["ref", col], e]  # inside a function with default support
        elif r < 0.6:
            e = ["rfn", fn, [["add", ["ref", col], ["lit", 1]]], restr]
        free = [x for x in "efg" if x not in cols]
        what = rng.choice(["calc", "sel", "sort"] if free else ["sel", "sort"])
        if what == "calc":
            state = (["calc", prog, free[0], e, None], cols | {free[0]}, eng)
        elif what == "sel":
            state = (["sel", prog, ["cmp", rng.choice(["lt", "ge", "ne"]), e, ["lit", 1]], None], cols, eng)
        else:
            state = (["sort", prog, [[e, rng.random() < 0.5]], None], cols, eng)
        for _ in range(rng.randint(0, 1)):
            state = g.unary(state, rng.choice(["proj", "slice", "dedup"])) or state
    case = gen.case_from(g, state)
    case["engine"] = engine
    return case


def has_nested_compound(rel) -> bool:
    import lsst.daf.relation as R
    from lsst.daf.relation import sql

    for n in interp.walk(rel):
        if isinstance(n, sql.Select) and n.is_compound:
            ch = n.skip_to
            for side in (ch.lhs, ch.rhs):
                if isinstance(side, sql.Select) and side.is_compound:
                    return True
    return False


def has_iteration_join(rel) -> bool:
    import lsst.daf.relation as R
    from lsst.daf.relation import iteration

    return any(isinstance(n, R.BinaryOperationRelation) and isinstance(n.operation, R.Join) and isinstance(n.engine, iteration.Engine) for n in interp.walk(rel))


def run_case(case):
    import lsst.daf.relation as R

    out = {"counters": {}, "violations": []}
    c = out["counters"]
    prog, engine = case["prog"], case["engine"]
    label = model.show(prog)
    db = DB(shim=False) if engine == "sql" else (DB(shim=True) if engine == "multi" else None)
    try:
        engines = make_engines(("sql",) if engine == "sql" else (("sql", "it", "it2") if engine == "multi" else ("it", "it2")))
        b = Builder(case["leaves"], engines, db)
        try:
            rel = b.build(prog)
        except BuildFailure as f:
            e = f.exc
            if isinstance(e, (R.ColumnError, R.EngineError)) or (isinstance(e, R.RelationalAlgebraError) and "will not preserve row order" in str(e)):
                out["skip"] = f"rejected_at_construction:{type(e).__name__}"
            else:
                out["violations"].append({"kind": "undocumented_exception_at_construction", "detail": f"{exc_str(e)} at {model.show(f.prog)}"})
            return out
        sig = gen.op_signature(prog)
        if "U" in sig or "J" in sig:
            c["with_binary"] = 1
        if engine == "multi":
            from .. import multi

            try:
                rows, processed, _ = multi.evaluate(rel, db)
                rows_again, _, _ = multi.evaluate(processed, db)
            except Exception as exc:  # noqa: BLE001
                if multi.prune_order_loss(rel, exc):
                    out["skip"] = "process_order_loss_known_finding_of_C07"
                    return out
                mech = None
                if has_iteration_join(rel) and isinstance(exc, R.EngineError) and "Joins are not supported by the iteration engine" in str(exc):
                    mech = "KF-iteration-join"
                out["violations"].append({"kind": "process_or_execute_raised", "mech": mech, "detail": f"{exc_str(exc)} for {label} tree {short(rel, 400)}"})
                return out
            if len(rows) != len(rows_again):
                out["violations"].append({"kind": "second_evaluation_differs", "detail": label})
            c["multi_engine_executed_ok"] = 1
        elif engine == "sql":
            try:
                ex = engines["sql"].to_executable(rel)
            except Exception as exc:  # noqa: BLE001
                out["violations"].append({"kind": "compile_raised", "detail": f"{exc_str(exc)} for {label} tree {short(rel, 400)}"})
                return out
            try:
                db.fetch(ex, rel.columns, engines["sql"])
            except Exception as exc:  # noqa: BLE001
                mech = None
                if has_nested_compound(rel) and "syntax error" in str(exc):
                    db2 = DB(shim=True)
                    try:
                        b2 = Builder(case["leaves"], make_engines(("sql",)), db2)
                        rel2 = b2.build(prog)
                        db2.run(rel2)
                        mech = "KF-sqlite-nested-union"
                    except Exception:  # noqa: BLE001
                        mech = None
                    finally:
                        db2.close()
                out["violations"].append({"kind": "database_rejected", "mech": mech, "detail": f"{exc_str(exc)} for {label} sql {short(db.text(ex), 400)}"})
                return out
            c["sql_executed_ok"] = 1
        else:
            try:
                rows = rel.engine.execute(rel)
                n1 = sum(1 for _ in rows)
                n2 = sum(1 for _ in rows)
            except Exception as exc:  # noqa: BLE001
                mech = None
                if has_iteration_join(rel) and isinstance(exc, R.EngineError) and "Joins are not supported by the iteration engine" in str(exc):
                    mech = "KF-iteration-join"
                out["violations"].append({"kind": "execute_raised", "mech": mech, "detail": f"{exc_str(exc)} for {label} tree {short(rel, 400)}"})
                return out
            if n1 != n2:
                out["violations"].append({"kind": "second_iteration_differs", "detail": label})
            c["iteration_executed_ok"] = 1
        c["executed_ok"] = 1
        if case.get("long_names"):
            c["long_column_name_cases_executed"] = 1
        nops = sum(1 for s in model.subprograms(prog) if s[0] != "leaf")
        if nops >= 2:
            out["sig"] = f"{engine}:{sig}"
            out["sample"] = {"engine": engine, "program": label, "tree": short(rel, 200)}
        return out
    finally:
        if db:
            db.close()
