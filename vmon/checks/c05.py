"""C05 - merging and eliding adjacent operations preserves semantics and never rejects."""
from __future__ import annotations

import itertools

from .. import bootstrap, exprs, gen, interp, model
from ..common import exc_str, names_rows, short
from ..dbx import DB, BuildFailure, Builder, make_engines
from ..monitors import simplify as mon
from ..tags import T

bootstrap.ensure()

ID = "C05"
LEVEL = "exploration"
TECHNIQUE = "runtime monitoring: _finish_apply hook oracle + icontract postconditions on Slice.then / Sort.then; exhaustive window and sort-term pairs"
RULE = (
    "(1) exhaustive: all 63 windows (start 0..6, stop None or start..start+7) x 63 windows: Slice.then, "
    "Slice.simplify and the public rel[w1][w2] in the iteration engine and in the SQL engine are compared with "
    "Python list slicing for every target length 0..12; (2) exhaustive: all sort-term lists of length 0..2 over "
    "{a, b, a+b} x {asc, desc} (43 lists, 1849 ordered pairs) through Sort.then and the public sorted().sorted() on 3 "
    "witness targets; (3) seeded random: a prefix of 0-2 operations followed by a merge-prone pair (slice/slice, "
    "sort/sort, selection/selection incl. trivially true/false and zero-operand AND/OR, projection/projection, "
    "projection over a used or unused calculation, do-nothing slice/sort/projection/selection) in either engine; the "
    "second apply must not raise, the returned tree is evaluated by the independent interpreter (and executed by the "
    "engine) and compared as an ordered list with the two operations applied in sequence; (4) every "
    "op._finish_apply(target) the library performs during all of this is checked by M-simplify (result tree == op "
    "applied to target) and icontract postconditions run on every Slice.then / Sort.then call.  Non-trivial = the "
    "library returned something other than a plain new node; distinct = (engine, pair kinds, merge outcome, prefix "
    "skeleton)."
    "  In the iteration engine 30 % of the free pairs put a user-defined Reordering / RowFilter next to a built-in operation (neither may be elided by whatever simplify() the other inherits). "
)
ASSUMPTIONS = [
    "interpreter vmon/interp.py and model vmon/model.py; SQLite executes SQL trees only where the result is "
    "order-independent (tree-level evaluation is always compared)",
]
MIN_OBS = {"finish_apply_events_checked": 2000, "merged_or_rewritten": 200, "elided": 100, "slice_then_contract_evaluations": 500, "sort_then_contract_evaluations": 100, "pairs_compared": 500}
CASE_TIMEOUT = 60
PAIRS = ["slice/slice", "sort/sort", "sel/sel", "proj/proj", "calc/proj", "noop", "any/any"]


def setup(tier):
    from ..monitors import hooks

    hooks.require()
    mon.install()


def budget(tier):
    if tier == "quick":
        return {"cases": 40000, "workers": 8, "watchdog_s": 1800}
    return {"cases": 1600000, "workers": 16, "watchdog_s": 3600, "budget_s": 600}


def windows():
    for start in range(7):
        for stop in [None] + list(range(start, start + 8)):
            yield start, stop


def gen_case(rng, tier):
    engine = rng.choice(["it", "sql"])
    cfg = gen.Cfg(engines=(engine,), special_leaves=False, raw_leaves=False, loose_bounds=False, max_rows_choices=(0, 1, 2, 3, 5, 8), total_sort_prob=0.5)
    g = gen.Gen(rng, cfg)
    state = g.leaf(engine)
    while not state[1]:
        g.leaves.clear()
        state = g.leaf(engine)
    for _ in range(rng.randint(0, 2)):
        new = g.unary(state, rng.choice(["calc", "sel", "sort", "slice", "dedup", "proj"]))
        if new and new[1]:
            state = new
    if rng.random() < 0.2:
        # pairs on top of a compound (UNION) relation
        state = (["chain", state[0], state[0]], state[1], state[2])
        if rng.random() < 0.5:
            nxt = g.unary(state, "sort")
            state = nxt or state
    kind = rng.choice(PAIRS)
    prog, cols, eng = state
    first = second = None
    if kind == "slice/slice":
        first, second = "slice", "slice"
    elif kind == "sort/sort":
        first, second = "sort", "sort"
    elif kind == "sel/sel":
        first, second = "sel", "sel"
    elif kind == "proj/proj":
        first, second = "proj", "proj"
    elif kind == "calc/proj":
        first, second = "calc", "proj"
    elif kind == "any/any":
        first, second = rng.choice(["calc", "sel", "sort", "slice", "dedup", "proj"]), rng.choice(["calc", "sel", "sort", "slice", "dedup", "proj"])
        if engine == "it" and rng.random() < 0.3:
            # a user-defined Reordering / RowFilter next to a built-in operation: whatever simplify()
            # they inherit (or the built-in inherits from their common base) must not elide either
            if rng.random() < 0.5:
                first = rng.choice(["rev", "cap"])
            else:
                second = rng.choice(["rev", "cap"])
    if kind == "sel/sel" and engine == "it" and cols and rng.random() < 0.3:
        # a guarded conjunction (the 2nd conjunct raises ZeroDivisionError on rows the guard
        # removes) followed by a selection that repeats the guard: the merged selection must
        # still evaluate the guard first (the iteration engine short-circuits AND in order)
        d = rng.choice(sorted(cols))
        guard = ["cmp", "ne", ["ref", d], ["lit", 0]]
        risky = ["cmp", rng.choice(["gt", "le"]), ["fdiv", ["lit", rng.choice([6, -7, 12])], ["ref", d]], ["lit", rng.randint(-2, 2)]]
        p1 = ["and", [guard, risky], rng.choice(["ctor", "factory"])]
        p2 = rng.choice([guard, ["and", [guard, ["cmp", "ge", ["ref", d], ["lit", -9]]], "ctor"], ["and", [["cmp", "ge", ["ref", d], ["lit", -9]], guard], "ctor"]])
        s1 = (["sel", prog, p1, None], cols, eng)
        s2 = (["sel", s1[0], p2, None], cols, eng)
        return {"leaves": g.leaves, "prog": s2[0], "first": s1[0], "engine": engine, "pair": "sel/sel-guarded"}
    if kind == "noop":
        s1 = state
        which = rng.choice(["slice", "sort", "proj", "sel"])
        if which == "slice":
            s2 = ["slice", prog, 0, None], cols, eng
        elif which == "sort":
            s2 = ["sort", prog, [], None], cols, eng
        elif which == "proj":
            s2 = ["proj", prog, sorted(cols), None], cols, eng
        else:
            p = rng.choice([["plit", True], ["and", [], "ctor"], ["and", [["plit", True], ["and", [], "factory"]], "ctor"], ["not", ["plit", False]], ["or", [["plit", True], ["cmp", "lt", ["ref", sorted(cols)[0]], ["lit", 0]]], "ctor"]])
            s2 = ["sel", prog, p, None], cols, eng
    else:
        s1 = g.unary(state, first) or state
        if first == "sel" and rng.random() < 0.3:
            s1 = ["sel", prog, gen_trivialish(rng, cols), None], cols, eng
        s2 = g.unary(s1, second)
        if second == "sel" and rng.random() < 0.3:
            s2 = ["sel", s1[0], gen_trivialish(rng, s1[1]), None], s1[1], eng
        if s2 is None:
            s2 = ["dedup", s1[0], None], s1[1], eng
    return {"leaves": g.leaves, "prog": s2[0], "first": s1[0], "engine": engine, "pair": kind}


def gen_trivialish(rng, cols):
    if not cols:
        return rng.choice([["plit", True], ["plit", False], ["and", [], "ctor"], ["or", [], "factory"]])
    c = sorted(cols)[0]
    return rng.choice([
        ["plit", True], ["plit", False], ["and", [], "ctor"], ["or", [], "ctor"],
        ["and", [["plit", True], ["cmp", "ge", ["ref", c], ["lit", 0]]], "ctor"],
        ["and", [["plit", False], ["cmp", "ge", ["ref", c], ["lit", 0]]], "factory"],
        ["not", ["and", [], "factory"]],
        ["and", [["and", [["cmp", "lt", ["ref", c], ["lit", 2]]], "ctor"], ["plit", True]], "ctor"],
    ])


def run_case(case):
    import lsst.daf.relation as R

    out = {"counters": {}, "violations": []}
    c = out["counters"]
    prog, first, engine = case["prog"], case["first"], case["engine"]
    m = model.Model(case["leaves"], key_dedup=(engine == "it"))
    try:
        want = m.eval(prog)
    except model.Skip as s:
        out["skip"] = s.reason
        return out
    except model.ModelError:
        out["skip"] = "pair_invalid"
        return out
    db = DB(shim=True) if engine == "sql" else None
    try:
        engines = make_engines((engine,))
        b = Builder(case["leaves"], engines, db)
        mon.COUNTERS.clear()
        mon.set_leaf_rows(b.rows_of_leaf)
        try:
            rel1 = b.build(first)
        except BuildFailure as f:
            if engine == "sql" and "will not preserve row order" in str(f.exc):
                out["skip"] = "refused_order_loss"
            else:
                out["violations"].append({"kind": "first_operation_rejected", "detail": f"{exc_str(f.exc)} at {model.show(f.prog)}"})
            return out
        try:
            rel2 = b.build(prog)
        except BuildFailure as f:
            out["violations"].append({"kind": "merge_rejected_valid_pair", "detail": f"{exc_str(f.exc)} applying {model.show(prog)} (first part built as {short(rel1)})"})
            return out
        finally:
            mon.set_leaf_rows(None)
        out["violations"].extend(mon.drain())
        for k, v in mon.COUNTERS.items():
            c[k] = c.get(k, 0) + v
        # tree-level evaluation by the independent interpreter
        try:
            got, gcols = interp.eval_tree(rel2, b.rows_of_leaf)
        except interp.IllFormed as e:
            out["violations"].append({"kind": "result_tree_illformed", "detail": f"{model.show(prog)} -> {short(rel2)}: {e}"})
            return out
        except (ArithmeticError, TypeError, KeyError) as e:
            # the two operations in sequence evaluate fine (the model did), the returned tree does not
            out["violations"].append({"kind": "result_tree_evaluation_raises", "detail": f"{model.show(prog)} -> {short(rel2)}: {exc_str(e)}"})
            return out
        c["pairs_compared"] = 1
        got_named = interp.named(got)
        if {t.qualified_name for t in gcols} != set(want.cols):
            out["violations"].append({"kind": "columns_differ", "detail": f"{model.show(prog)} -> {short(rel2)}"})
        elif got_named != want.rows:
            out["violations"].append({"kind": "tree_evaluates_differently", "detail": f"{model.show(prog)} -> {short(rel2)}: tree gives {short(got_named, 300)} sequence gives {short(want.rows, 300)}"})
        # engine execution
        if engine == "it":
            try:
                ex = names_rows(rel2.engine.execute(rel2))
                if ex != want.rows:
                    out["violations"].append({"kind": "execution_differs", "detail": f"{model.show(prog)} -> {short(rel2)}: {short(ex, 300)} vs {short(want.rows, 300)}"})
            except Exception as exc:  # noqa: BLE001
                out["violations"].append({"kind": "execute_raised", "detail": f"{exc_str(exc)} for {short(rel2)}"})
        else:
            try:
                m2 = model.Model(case["leaves"], sql_slices=True, strict_fragile=True)
                w2 = m2.eval(prog)
                ex = names_rows(db.run(rel2))
                c["sql_executed"] = 1
                if model.canon(ex) != model.canon(w2.rows):
                    out["violations"].append({"kind": "sql_execution_differs", "detail": f"{model.show(prog)} -> {short(rel2)}"})
            except model.Skip:
                c["sql_execution_skipped_nondeterministic"] = 1
            except Exception as exc:  # noqa: BLE001
                out["violations"].append({"kind": "sql_execute_raised", "detail": f"{exc_str(exc)} for {model.show(prog)} -> {short(rel2)}"})
        # documented no-ops return the receiver itself
        if case["pair"] == "noop":
            c["noop_calls"] = 1
            if rel2 is not rel1:
                out["violations"].append({"kind": "noop_not_identity", "detail": f"{model.show(prog)} returned a different object: {short(rel2)} vs {short(rel1)}"})
        outcome = "same_object" if rel2 is rel1 else ("plain" if getattr(rel2, "target", None) is rel1 else "rewritten")
        if outcome != "plain":
            out["sig"] = f"{engine}:{case['pair']}:{prog[0]}:{outcome}:{gen.op_signature(first)}"
            out["sample"] = {"engine": engine, "program": model.show(prog), "returned_tree": short(rel2, 200), "outcome": outcome}
        return out
    finally:
        if db:
            db.close()


# ------------------------------------------------------------------ exhaustive parts


def exhaustive_slices(out):
    import lsst.daf.relation as R
    from lsst.daf.relation import iteration

    c = out["counters"]
    it = iteration.Engine(name="it")
    sql_engines = make_engines(("sql",))
    db = DB(shim=True)
    a = T("a")
    leaves = {}
    for n in (0, 1, 5, 12):
        rows = [{a: i} for i in range(n)]
        leaves[n] = (it.make_leaf({a}, iteration.RowSequence(rows), name=f"N{n}"), sql_engines["sql"].make_leaf({a}, db.make_table(f"N{n}", [a], rows), name=f"N{n}", min_rows=n, max_rows=n), rows)
    ws = list(windows())
    for (s1, e1), (s2, e2) in itertools.product(ws, ws):
        c["slice_pairs_enumerated"] = c.get("slice_pairs_enumerated", 0) + 1
        w1, w2 = R.Slice(s1, e1), R.Slice(s2, e2)
        label = f"[{s1}:{e1}][{s2}:{e2}]"
        try:
            comp = w1.then(w2)
            simp = w2.simplify(w1)
        except Exception as exc:  # noqa: BLE001
            out["violations"].append({"kind": "slice_merge_raised", "detail": f"{label}: {exc_str(exc)}", "case": {"slices": [s1, e1, s2, e2]}})
            continue
        for n in range(13):
            base = list(range(n))
            wantl = base[s1:e1][s2:e2]
            for res, nm in ((comp, "then"), (simp, "simplify")):
                if res is None:
                    out["violations"].append({"kind": "slice_simplify_none", "detail": label})
                    break
                if base[res.start : res.stop] != wantl:
                    out["violations"].append({"kind": f"slice_{nm}_wrong", "detail": f"{label} on length {n}: {res} gives {base[res.start:res.stop]} want {wantl}", "case": {"slices": [s1, e1, s2, e2]}})
                    break
            c["slice_window_length_checks"] = c.get("slice_window_length_checks", 0) + 1
        for n, (ileaf, sleaf, rows) in leaves.items():
            wantl = [r[a] for r in rows][s1:e1][s2:e2]
            try:
                irel = ileaf[s1:e1][s2:e2]
                got = [r[a] for r in it.execute(irel)]
                tgot = [r[a] for r in interp.eval_tree(irel, lambda leaf, rows=rows: rows)[0]]
                srel = sleaf[s1:e1][s2:e2]
                stree = [r[a] for r in interp.eval_tree(srel, lambda leaf, rows=rows: rows)[0]]
            except Exception as exc:  # noqa: BLE001
                out["violations"].append({"kind": "slice_pair_rejected", "detail": f"N{n}{label}: {exc_str(exc)}", "case": {"slices": [s1, e1, s2, e2]}})
                break
            c["slice_public_api_checks"] = c.get("slice_public_api_checks", 0) + 1
            if got != wantl or tgot != wantl or stree != wantl:
                out["violations"].append({"kind": "slice_pair_wrong_rows", "detail": f"N{n}{label}: iteration {got} tree {tgot} sqltree {stree} want {wantl}", "case": {"slices": [s1, e1, s2, e2]}})
                break
            if n == 12 and (s1, e1) == (0, None) or n == 12 and (s2, e2) == (0, None):
                pass
        out["sigs"].append(f"slice:{'N' if e1 is None else min(e1 - s1, 3)}:{'N' if e2 is None else min(e2 - s2, 3)}:{min(s1, 2)}:{min(s2, 2)}")
    db.close()
    out["extra"]["slice_space_exhaustive"] = True
    out["extra"]["slice_windows"] = len(ws)


def exhaustive_sorts(out):
    import lsst.daf.relation as R
    from lsst.daf.relation import iteration

    c = out["counters"]
    it = iteration.Engine(name="it")
    names = ["a", "b"]
    tags = [T(n) for n in names]
    exprs_ast = [["ref", "a"], ["ref", "b"], ["add", ["ref", "a"], ["ref", "b"]]]
    singles = [[e, asc] for e in exprs_ast for asc in (True, False)]
    lists = [[]] + [[s] for s in singles] + [[s1, s2] for s1 in singles for s2 in singles]
    witnesses = [
        [[1, 2], [0, 2], [1, 0], [0, 0], [2, 1], [1, 2]],
        [[0, 1], [1, 0], [0, 1], [-1, 2], [2, -1]],
        [],
    ]
    wleaves = []
    for i, w in enumerate(witnesses):
        rows = [dict(zip(tags, r)) for r in w]
        wleaves.append((it.make_leaf(set(tags), iteration.RowSequence(rows), name=f"W{i}"), [dict(zip(names, r)) for r in w]))

    def to_terms(lst):
        return [R.SortTerm(exprs.elib(e), asc) for e, asc in lst]

    for l1, l2 in itertools.product(lists, lists):
        c["sort_pairs_enumerated"] = c.get("sort_pairs_enumerated", 0) + 1
        for leaf, nrows in wleaves:
            want = model.m_sort(model.m_sort(nrows, l1) if l1 else nrows, l2) if l2 else (model.m_sort(nrows, l1) if l1 else nrows)
            try:
                rel = leaf.sorted(to_terms(l1)).sorted(to_terms(l2))
                got = names_rows(it.execute(rel))
            except Exception as exc:  # noqa: BLE001
                out["violations"].append({"kind": "sort_pair_rejected", "detail": f"{l1} then {l2}: {exc_str(exc)}"})
                break
            if got != want:
                out["violations"].append({"kind": "sort_pair_wrong_order", "detail": f"sorted({l1}).sorted({l2}) on {nrows}: got {got} want {want} tree {rel}"})
                break
            if not l1 and not l2 and rel is not leaf:
                out["violations"].append({"kind": "noop_not_identity", "detail": "empty sorts returned a new object"})
        out["sigs"].append(f"sort:{len(l1)}:{len(l2)}:{sum(1 for t in l2 if t in l1)}")
    out["extra"]["sort_space_exhaustive_upto_len2"] = True
    out["extra"]["sort_term_lists"] = len(lists)


def run_shard(seed, wid, nworkers, tier):
    out = {"counters": {}, "violations": [], "evaluations": 0, "sigs": [], "extra": {}}
    mon.COUNTERS.clear()
    if wid == 0:
        exhaustive_slices(out)
        out["evaluations"] += out["counters"].get("slice_pairs_enumerated", 0)
        out["sample"] = {"kind": "exhaustive slice windows", "pairs": out["counters"].get("slice_pairs_enumerated", 0)}
    elif wid == 1 or nworkers == 1:
        exhaustive_sorts(out)
        out["evaluations"] += out["counters"].get("sort_pairs_enumerated", 0)
        out["sample"] = {"kind": "exhaustive sort-term lists", "pairs": out["counters"].get("sort_pairs_enumerated", 0)}
    out["violations"].extend(mon.drain())
    for k, v in mon.COUNTERS.items():
        out["counters"][k] = out["counters"].get(k, 0) + v
    mon.COUNTERS.clear()
    return out
