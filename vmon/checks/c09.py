"""C09 - relations are persistent, hashable values; evaluation is side-effect free."""
from __future__ import annotations

import random

from .. import bootstrap, exprs, gen, interp, model, multi
from ..common import exc_str, names_rows, short
from ..dbx import DB, BuildFailure, Builder, VProcessor, make_engines
from ..fingerprint import fingerprint, safe_hash
from . import c03

bootstrap.ensure()

ID = "C09"
LEVEL = "exploration"
TECHNIQUE = "runtime monitoring: history monitor - fingerprint sweep of the whole pool after every step, rebuild comparison"
RULE = (
    "seeded random histories of 25-60 (quick) / 60-200 (thorough) steps over a pool of relations that only grows: "
    "factory calls on random pool members (all operation kinds, all preferred-engine options, joins and chains "
    "between pool members, sorts, range and sequence containers given as lists and tuples), Engine.to_executable "
    "(twice, rendered SQL compared), SQLite execution and iteration execute (twice, rows compared), "
    "Processor.process, Diagnostics.run.  After EVERY step the fingerprint of every pool member - repr, str, columns, "
    "row bounds, engine, hash (or the fact that hashing raises), and for each leaf its payload content (rows of "
    "iteration payloads; from-clause identity, rendered where list and available columns of sql.Payload) - must equal "
    "the one taken when it entered the pool, and every member must still equal a relation rebuilt from the same "
    "named sequence on the same leaves, with equal hash; every factory-built relation must be hashable.  Non-trivial "
    "= history with >= 10 effective steps; distinct = multiset of step kinds x pool size bucket."
    "  Binary steps include Join objects with explicit max_columns applied directly or through Join.partial(fixed, "
    "is_lhs) - also across engines, and (directed) onto a projection of a transfer with a fixed operand ending in "
    "a calculation; leaves may hold lazily chained payloads, whose content is fingerprinted by iterating them.  "
    "A quarter of the numeric literals are floats / bools equal to the integer drawn, and 'lookalike' steps rebuild a "
    "pool member with its literals replaced by equal values of another type (relations that compare equal without "
    "meaning the same); rows are compared type-sensitively, every later execution of a member must repeat its first, "
    "and at the end up to 8 executed members are rebuilt and executed on their own (fresh engines, expression objects "
    "and database): the rows must be those seen in the middle of the history.  'execute_native' steps run "
    "iteration.Engine.execute directly (twice, ordered and type-sensitive comparison, and against the member's first "
    "native execution) on members that live in iteration engines only, including transfers between iteration "
    "engines and user-defined marker relations. "
    "  Trees returned by Processor.process enter the pool as members of their own (their transfer / materialization payloads are part of the fingerprint); factory steps are applied to those objects, and compile steps accept trees whose transfers and materializations all carry payloads. "
    "  'redo' steps repeat the factory call that built a member on the very same operand objects, whatever has happened to them since (processing, payloads attached): the result must equal the member (==, str, hash).  12 % of the histories start with a directed prefix: a materialized chain of a doomed relation and a SQL leaf, a join of it with a selection of that leaf, process() of the materialization, and the join built again. "
)
ASSUMPTIONS = [
    "materializations and leaves are explicitly named (auto-generated names are unique per call by design)",
    "fingerprints observe public attributes only; Materialization payload attachment is C10's subject and excluded",
]
MIN_OBS = {"steps_executed": 5000, "factory_calls_repeated": 1000, "directed_doomed_chain_histories": 50, "native_double_executions": 300, "lookalikes_built": 300, "isolation_replays": 1000, "fingerprint_sweeps": 5000, "rebuild_comparisons": 300, "double_compilations": 300, "double_executions": 300, "hash_checks": 3000}
CASE_TIMEOUT = 180
STEP_KINDS = ["factory", "factory", "factory", "factory", "binary", "binary", "redo", "compile", "execute", "execute", "execute_native", "process", "diagnose", "lookalike"]


def budget(tier):
    if tier == "quick":
        return {"cases": 3000, "workers": 8, "watchdog_s": 1800}
    return {"cases": 120000, "workers": 16, "watchdog_s": 3600, "budget_s": 600}


def gen_case(rng, tier):
    cfg = gen.Cfg(engines=c03.ENG, special_leaves=True, raw_leaves=False)
    g = gen.Gen(rng, cfg)
    for e in ("sql", "it", "it2", rng.choice(c03.ENG)):
        g.leaf(e, allow_special=rng.random() < 0.3)
    steps = rng.randint(25, 60) if tier == "quick" else rng.randint(60, 200)
    case = {"leaves": g.leaves, "seed": rng.randint(0, 10**9), "steps": steps}
    sql_leaves = [n for n, sp in g.leaves.items() if sp["engine"] == "sql" and sp.get("kind") == "normal" and sp["cols"]]
    if sql_leaves and rng.random() < 0.12:
        # directed prefix: a materialized chain of a doomed relation and a leaf (the Processor prunes
        # the doomed branch, so the materialization ends up holding the leaf's own payload), and a
        # join of it with a selection of that leaf, built before and re-built after process()
        name = rng.choice(sql_leaves)
        g.leaves["LD"] = {"engine": "sql", "cols": list(g.leaves[name]["cols"]), "rows": [], "kind": "doomed"}
        case["directed_doomed"] = name
    return case


def run_case(case):
    import lsst.daf.relation as R
    from lsst.daf.relation import sql

    out = {"counters": {}, "violations": []}
    c = out["counters"]
    rng = random.Random(case["seed"])
    db = DB(shim=True)
    # 25 % of the numeric literals are floats / bools equal to the integer drawn: expressions that
    # compare and hash equal without being the same (see the "lookalike" step)
    exprs.LIT_KINDS = 0.25
    try:
        engines = make_engines(c03.ENG)
        b = Builder(case["leaves"], engines, db)
        g = gen.Gen(rng, gen.Cfg(engines=c03.ENG, xfer_prob=0.0))
        g.leaves = dict(case["leaves"])
        pool = []  # entries: dict(prog, rel, cols, eng, fp)

        def add(prog, rel, cols, eng, processed=False):
            h = safe_hash(rel)
            c["hash_checks"] = c.get("hash_checks", 0) + 1
            if h[0] != "hash":
                out["violations"].append({"kind": "factory_built_relation_not_hashable", "detail": f"{model.show(prog)}: hash() raised {h[1]}; tree {short(rel, 200)}"})
            # ``processed``: a tree a Processor returned (or one built on such a tree); its transfers
            # and materializations carry payloads, which are part of what must not change
            pool.append({"prog": prog, "rel": rel, "cols": frozenset(cols), "eng": eng, "processed": processed, "fp": fingerprint(rel), "marker_fp": marker_payloads(rel) if processed else {}})

        for name, spec in case["leaves"].items():
            prog = ["leaf", name]
            rel = b.build(prog)
            add(prog, rel, spec["cols"], spec["engine"])
        kinds = []

        def sweep(after):
            c["fingerprint_sweeps"] = c.get("fingerprint_sweeps", 0) + 1
            for ent in pool:
                if ent.get("marker_fp"):
                    # payloads that transfers / materializations of a processed tree carried when it
                    # entered the pool must keep their content (nodes that had none may still gain one)
                    cur = marker_payloads(ent["rel"])
                    bad = [k for k, v in ent["marker_fp"].items() if cur.get(k) != v]
                    if bad:
                        out["violations"].append({"kind": "payload_of_processed_tree_changed", "detail": f"{model.show(ent['prog'])} (a tree returned by a Processor): the content of {len(bad)} transfer / materialization payload(s) changed after step {after}"})
                        ent["marker_fp"] = {k: cur.get(k) for k in ent["marker_fp"]}
                now = fingerprint(ent["rel"])
                if now != ent["fp"]:
                    fields = ["repr", "str", "columns", "min_rows", "max_rows", "hash", "engine", "is_locked", "payloads"]
                    diff = [fields[i] for i, (x, y) in enumerate(zip(ent["fp"], now)) if x != y]
                    out["violations"].append({"kind": "existing_relation_changed", "detail": f"{model.show(ent['prog'])} changed in {diff} after step {after}"})
                    ent["fp"] = now

        def redo(ent, after):
            """The same factory call on the same operand objects, later in the history: an equal relation."""
            prog = ent["prog"]
            if prog[0] == "leaf" or ent.get("processed"):
                return False
            kids = [prog[1], prog[2]] if prog[0] in ("chain", "join") else [prog[1]]
            try:
                args = [b.memo[repr(k)] for k in kids]
            except KeyError:
                return False
            try:
                again = b.apply(prog, *args)
            except Exception as exc:  # noqa: BLE001
                out["violations"].append({"kind": "repeated_factory_call_raised", "detail": f"{model.show(prog)} built again on the same operands after {after}: {exc_str(exc)}"})
                return True
            c["factory_calls_repeated"] = c.get("factory_calls_repeated", 0) + 1
            if again != ent["rel"] or str(again) != str(ent["rel"]) or safe_hash(again) != safe_hash(ent["rel"]):
                out["violations"].append({"kind": "repeated_factory_call_gives_different_relation", "detail": f"{model.show(prog)} built again on the same operand objects after {after}: {short(again, 250)} vs {short(ent['rel'], 250)}"})
            return True

        if case.get("directed_doomed"):
            lname = case["directed_doomed"]
            col = sorted(case["leaves"][lname]["cols"])[0]
            cached_prog = ["mat", ["chain", ["leaf", "LD"], ["leaf", lname]], "MD"]
            sel_prog = ["sel", ["leaf", lname], ["cmp", "ge", ["ref", col], ["lit", -1]], None]
            join_prog = ["join", cached_prog, sel_prog, None, None] if rng.random() < 0.5 else ["join", sel_prog, cached_prog, None, None]
            try:
                for pr in (cached_prog, sel_prog, join_prog):
                    r0 = b.build(pr)
                    add(pr, r0, {t.qualified_name for t in r0.columns}, str(r0.engine))
                jent = pool[-1]
                VProcessor(db).process(b.memo[repr(cached_prog)])
                sweep("directed process")
                redo(jent, "process() of its materialized operand")
                c["directed_doomed_chain_histories"] = 1
            except (BuildFailure, R.RelationalAlgebraError):
                pass

        for step in range(case["steps"]):
            kind = rng.choice(STEP_KINDS)
            ent = rng.choice(pool)
            what = f"{kind} on {model.show(ent['prog'])}"
            try:
                if kind == "factory":
                    op = rng.choice(["calc", "proj", "sel", "dedup", "sort", "slice", "mat", "xfer", "sort", "mark"])
                    g.cfg.engines = c03.ENG
                    st = g.unary((ent["prog"], ent["cols"], ent["eng"]), op)
                    if st is None:
                        continue
                    prog = st[0]
                    if op in ("calc", "proj", "sel", "dedup", "sort") and rng.random() < 0.5:
                        opt = {"pe": rng.choice(c03.ENG), "bt": rng.random() < 0.7, "tr": rng.random() < 0.4, "rq": rng.random() < 0.2}
                        prog = prog[:-1] + [opt]
                    if op == "mat":
                        # explicit names, some of them long (descriptive names assembled from several parts)
                        prog = ["mat", prog[1], f"M{step}" if rng.random() < 0.7 else f"M{step}_" + "deep_coadd_forced_source_table_" * rng.randint(2, 4)]
                    what = model.show(prog)
                    if ent.get("processed"):
                        # build on the processed OBJECT (the program alone would rebuild an unprocessed tree)
                        if op in ("mat", "xfer"):
                            continue
                        try:
                            rel = b.apply(prog, ent["rel"])
                        except Exception as exc:  # noqa: BLE001
                            raise BuildFailure(prog, exc) from exc
                        add(prog, rel, {t.qualified_name for t in rel.columns}, str(rel.engine), processed=True)
                        c["built_on_processed_trees"] = c.get("built_on_processed_trees", 0) + 1
                    else:
                        rel = b.build(prog)
                        add(prog, rel, {t.qualified_name for t in rel.columns}, str(rel.engine))
                elif kind == "redo":
                    if not redo(ent, f"step {step}"):
                        continue
                elif kind == "lookalike":
                    # the same call sequence with literals replaced by equal values of another type:
                    # a relation that compares equal to an existing one but must keep its own meaning
                    prog = exprs.reflavour(ent["prog"], rng)
                    if repr(prog) == repr(ent["prog"]):
                        continue
                    what = "look-alike " + model.show(prog)
                    rel = b.build(prog)
                    add(prog, rel, {t.qualified_name for t in rel.columns}, str(rel.engine))
                    c["lookalikes_built"] = c.get("lookalikes_built", 0) + 1
                    if rng.random() < 0.7:
                        ent = pool[-1]
                        r1, _, _ = multi.evaluate(ent["rel"], db)
                        ent.setdefault("rows", tcanon(r1))
                elif kind == "binary":
                    other = rng.choice(pool)
                    if rng.random() < 0.5 and ent["cols"] == other["cols"] and ent["eng"] == other["eng"]:
                        prog = ["chain", ent["prog"], other["prog"]]
                    else:
                        shared_nonkey = {x for x in ent["cols"] & other["cols"] if x in "xyz"}
                        if shared_nonkey:
                            continue
                        r_route = rng.random()
                        if rng.random() < 0.15 and ent["cols"] and ent["eng"] == other["eng"] == "sql":
                            # directed: an operand ending in a calculation (no projection after it)
                            # joined to an operand that ends in a bare projection
                            fx = g.unary((ent["prog"], ent["cols"], ent["eng"]), "calc")
                            keep = sorted(x for x in other["cols"] if x not in "xyz" and rng.random() < 0.7)
                            if fx is None or (fx[1] - ent["cols"]) & other["cols"] or {x for x in fx[1] & set(keep) if x in "xyz"}:
                                continue
                            pr = ["proj", other["prog"], keep, None]
                            prog = ["join", fx[0], pr, None, {"bt": True, "tr": False}] if rng.random() < 0.5 else ["join", pr, fx[0], None, {"bt": True, "tr": False}]
                        elif r_route < 0.12 and ent["cols"]:
                            # directed: the join has to backtrack through a projection and a transfer
                            # into the engine of a fixed operand that ends in a calculation
                            fx = g.unary((other["prog"], other["cols"], other["eng"]), "calc")
                            dest = rng.choice([e for e in c03.ENG if e != other["eng"]])
                            if fx is None or ent["eng"] != other["eng"] or (fx[1] - other["cols"]) & ent["cols"]:
                                continue
                            keep = sorted(x for x in ent["cols"] if rng.random() < 0.7)
                            tprog = ["proj", ["xfer", ent["prog"], dest], keep, None]
                            if {x for x in set(keep) & fx[1] if x in "xyz"}:
                                continue
                            prog = ["join", tprog, fx[0], None, {"maxc": list("abcdefg"), "partial": True, "is_lhs": rng.random() < 0.5}]
                        elif r_route < 0.35 and ent["eng"] == other["eng"]:
                            prog = ["join", ent["prog"], other["prog"], None, {"maxc": list("abcdefg"), "partial": rng.random() < 0.5, "is_lhs": rng.random() < 0.4}]
                        elif r_route < 0.5:
                            # Join.partial(fixed, is_lhs).apply(target) across engines: the fixed
                            # operand's engine is the preferred one, the join backtracks into it
                            prog = ["join", ent["prog"], other["prog"], None, {"maxc": list("abcdefg"), "partial": True, "is_lhs": rng.random() < 0.5}]
                        else:
                            prog = ["join", ent["prog"], other["prog"], None, {"bt": rng.random() < 0.7, "tr": rng.random() < 0.5}]
                    what = model.show(prog)
                    rel = b.build(prog)
                    add(prog, rel, {t.qualified_name for t in rel.columns}, str(rel.engine))
                elif kind == "compile":
                    if not isinstance(ent["rel"].engine, sql.Engine) or any(isinstance(n, (R.Transfer, R.Materialization)) and n.payload is None for n in interp.walk(ent["rel"])):
                        continue  # to_executable documents that transfers / materializations need a Processor first
                    t1 = db.text(ent["rel"].engine.to_executable(ent["rel"]))
                    t2 = db.text(ent["rel"].engine.to_executable(ent["rel"]))
                    c["double_compilations"] = c.get("double_compilations", 0) + 1
                    if t1 != t2:
                        out["violations"].append({"kind": "repeated_compilation_differs", "detail": f"{what}: {short(t1, 300)} vs {short(t2, 300)}"})
                elif kind == "execute":
                    r1, _, _ = multi.evaluate(ent["rel"], db)
                    r2, _, _ = multi.evaluate(ent["rel"], db)
                    c["double_executions"] = c.get("double_executions", 0) + 1
                    m = model.Model(case["leaves"], sql_slices=True, key_dedup=True, strict_fragile=True, ordered_engines=("it", "it2"))
                    try:
                        m.eval(strip_opts(ent["prog"]))
                        deterministic = True
                    except (model.Skip, model.ModelError):
                        deterministic = False
                    if deterministic and tcanon(r1) != tcanon(r2):
                        out["violations"].append({"kind": "repeated_execution_differs", "detail": f"{what}: {short(r1, 200)} vs {short(r2, 200)}"})
                    if deterministic:
                        if "rows" in ent and ent["rows"] != tcanon(r1):
                            out["violations"].append({"kind": "later_execution_differs_from_first", "detail": f"{what}: {short(r1, 200)} vs first {short(ent['rows'], 200)}"})
                        ent.setdefault("rows", tcanon(r1))
                        ent["deterministic"] = True
                elif kind == "execute_native":
                    # iteration.Engine.execute on its own (it handles transfers between iteration
                    # engines and any marker relation without a Processor)
                    if any(str(n.engine).startswith("sql") for n in interp.walk(ent["rel"])):
                        continue
                    n1 = names_rows(ent["rel"].engine.execute(ent["rel"]))
                    n2 = names_rows(ent["rel"].engine.execute(ent["rel"]))
                    c["native_double_executions"] = c.get("native_double_executions", 0) + 1
                    if tlist(n1) != tlist(n2):
                        out["violations"].append({"kind": "repeated_execution_differs", "detail": f"{what}: {short(n1, 200)} vs {short(n2, 200)}"})
                    if "native_rows" in ent and ent["native_rows"] != tlist(n1):
                        out["violations"].append({"kind": "later_execution_differs_from_first", "detail": f"{what}: {short(n1, 200)} vs first {short(ent['native_rows'], 200)}"})
                    ent.setdefault("native_rows", tlist(n1))
                elif kind == "process":
                    done = VProcessor(db).process(ent["rel"])
                    if done is not ent["rel"] and not ent.get("processed") and rng.random() < 0.6:
                        add(ent["prog"], done, ent["cols"], ent["eng"], processed=True)
                elif kind == "diagnose":
                    R.Diagnostics.run(ent["rel"])
            except BuildFailure as f:
                if not isinstance(f.exc, R.RelationalAlgebraError):
                    # not a persistence matter (C14 / C20 judge construction errors); only recorded
                    c["factory_raised_other_exception"] = c.get("factory_raised_other_exception", 0) + 1
                kind = kind + "_rejected"
            except R.RelationalAlgebraError as exc:
                if "Joins are not supported by the iteration engine" not in str(exc) and "will not preserve row order" not in str(exc):
                    out["violations"].append({"kind": "evaluation_raised", "detail": f"{what}: {exc_str(exc)}"})
                kind = kind + "_raised"
            except Exception as exc:  # noqa: BLE001
                out["violations"].append({"kind": "evaluation_raised", "detail": f"{what}: {exc_str(exc)}"})
                kind = kind + "_raised"
            kinds.append(kind)
            c["steps_executed"] = c.get("steps_executed", 0) + 1
            sweep(f"{step} ({what})")
            if len(out["violations"]) > 6:
                break
        # rebuild the same named sequences on the same leaves
        b2 = Builder(case["leaves"], engines, db)
        for name in case["leaves"]:
            b2.memo[repr(["leaf", name])] = b.memo[repr(["leaf", name])]
        for ent in rng.sample(pool, min(len(pool), 12)):
            if ent["prog"][0] == "leaf" or ent.get("processed"):
                continue
            try:
                again = b2.build(ent["prog"])
            except BuildFailure:
                out["violations"].append({"kind": "rebuild_rejected", "detail": model.show(ent["prog"])})
                continue
            c["rebuild_comparisons"] = c.get("rebuild_comparisons", 0) + 1
            if again != ent["rel"]:
                out["violations"].append({"kind": "rebuilt_relation_not_equal", "detail": f"{model.show(ent['prog'])}: {short(again, 200)} vs {short(ent['rel'], 200)}"})
            elif safe_hash(again) != safe_hash(ent["rel"]):
                out["violations"].append({"kind": "rebuilt_relation_hash_differs", "detail": model.show(ent["prog"])})
        # ---- isolation replay: what a relation yielded in the middle of the history must be what the
        # same call sequence yields on its own (fresh engines, fresh expression objects, fresh database)
        executed = [ent for ent in pool if ent.get("deterministic") and "rows" in ent]
        if executed:
            db2 = DB(shim=True)
            try:
                for ent in rng.sample(executed, min(len(executed), 8)):
                    try:
                        b3 = Builder(case["leaves"], make_engines(c03.ENG), db2)
                        alone, _, _ = multi.evaluate(b3.build(ent["prog"]), db2)
                    except Exception:  # noqa: BLE001 - construction / processing failures are judged elsewhere
                        c["isolation_replay_failed"] = c.get("isolation_replay_failed", 0) + 1
                        continue
                    c["isolation_replays"] = c.get("isolation_replays", 0) + 1
                    if tcanon(alone) != ent["rows"]:
                        out["violations"].append({"kind": "rows_in_history_differ_from_rows_in_isolation", "detail": f"{model.show(ent['prog'])}: in the history {short(ent['rows'], 250)}, on its own {short(tcanon(alone), 250)}"})
            finally:
                db2.close()
        for bad in b.sweep_expressions()[:2]:
            out["violations"].append({"kind": "expression_required_columns_changed_during_history", "detail": bad})
        c["expression_objects_swept"] = c.get("expression_objects_swept", 0) + len(b.expr_cache)
        eff = [k for k in kinds if not k.endswith("_rejected")]
        if len(eff) >= 10:
            sig = ",".join(f"{k}{min(eff.count(k), 9)}" for k in sorted(set(eff)))
            out["sig"] = f"{sig}|pool{len(pool) // 5}"
            out["sample"] = {"steps": len(kinds), "pool": len(pool), "step_kinds": {k: kinds.count(k) for k in sorted(set(kinds))}, "last_relation": model.show(pool[-1]["prog"])[:200]}
        return out
    finally:
        db.close()


def marker_payloads(rel) -> dict:
    """id(node) -> content fingerprint of the payload, for transfers / materializations that carry one."""
    import lsst.daf.relation as R

    from ..fingerprint import payload_fp

    return {id(n): (type(n).__name__, payload_fp(n.payload)) for n in interp.walk(rel) if isinstance(n, (R.Transfer, R.Materialization)) and n.payload is not None}


def tcanon(rows):
    """Type-sensitive canonical multiset of rows (1, 1.0 and True are different values)."""
    return sorted(repr(sorted((k, type(v).__name__, repr(v)) for k, v in r.items())) for r in rows)


def tlist(rows):
    """Type-sensitive ordered form of a list of rows."""
    return [repr(sorted((k, type(v).__name__, repr(v)) for k, v in r.items())) for r in rows]


def strip_opts(prog):
    """Program without preferred-engine options (for the model)."""
    if not isinstance(prog, list):
        return prog
    return [strip_opts(x) if isinstance(x, list) else (None if isinstance(x, dict) else x) for x in prog]
