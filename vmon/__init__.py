"""Runtime-monitoring machinery for lsst/daf_relation (see /verif/DESIGN.md)."""
