"""Evaluation of multi-engine trees through a real Processor."""
from __future__ import annotations

from . import bootstrap

bootstrap.ensure()

from lsst.daf.relation import sql  # noqa: E402

from .common import names_rows  # noqa: E402
from .dbx import VProcessor  # noqa: E402


def evaluate(rel, db, processor=None):
    """Process ``rel`` and execute the result in its final engine.
    Returns (rows as list of dict name -> value, processed relation, processor)."""
    proc = processor if processor is not None else VProcessor(db)
    processed = proc.process(rel)
    if isinstance(processed.engine, sql.Engine):
        rows = names_rows(db.run(processed))
    else:
        rows = names_rows(processed.engine.execute(processed))
    return rows, processed, proc


def engines_in(prog, leaves) -> set:
    from .model import subprograms

    out = set()
    for sub in subprograms(prog):
        if sub[0] == "leaf":
            out.add(leaves[sub[1]]["engine"])
        elif sub[0] == "xfer":
            out.add(sub[2])
    return out


def prune_order_loss(rel, exc) -> bool:
    """Mechanism of the known finding KF-reapply-order-loss: processing raised the documented
    row-order-loss error although construction had accepted the tree, and the tree contains a
    sort without slice that construction had (legally) nested in a sub-query below the root -
    under a calculation / selection / projection of a compound select, or next to a statically
    empty chain branch.  When the Processor re-applies the operations (pruning empty chain
    branches, without calculations a later projection had elided) that sort returns to the
    outermost query level and the following join / chain / materialization is refused."""
    import lsst.daf.relation as R
    from lsst.daf.relation import sql

    from . import interp

    if not (isinstance(exc, R.RelationalAlgebraError) and "will not preserve row order" in str(exc)):
        return False
    for n in interp.walk(rel):
        if n is rel:
            continue
        if isinstance(n, sql.Select) and n.has_sort and not n.has_slice:
            return True
        if isinstance(n, R.BinaryOperationRelation) and isinstance(n.operation, R.Chain) and (n.lhs.max_rows == 0 or n.rhs.max_rows == 0):
            return True
    return False
