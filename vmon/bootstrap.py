"""Make ``lsst.daf.relation`` importable from the working tree under test.

``VERIF_REPO`` (default ``/repo``) selects the tree; its ``python`` directory is
put first on ``sys.path`` so it wins over any installed copy.  ``version.py`` is
git-ignored in the repository but imported by ``__init__``; a stub module is
injected if it is missing so the checks run from a bare checkout.
"""
from __future__ import annotations

import importlib
import os
import sys
import types

REPO = os.environ.get("VERIF_REPO", "/repo")
VERIF = os.path.dirname(os.path.dirname(os.path.abspath(__file__)))
_done = False


def ensure() -> None:
    global _done
    if _done:
        return
    pydir = os.path.join(REPO, "python")
    if not os.path.isdir(os.path.join(pydir, "lsst", "daf", "relation")):
        raise SystemExit(f"INCONCLUSIVE reason=no lsst.daf.relation under {pydir}")
    deps = os.path.join(VERIF, ".deps")
    if os.path.isdir(deps) and deps not in sys.path:
        sys.path.append(deps)  # after site-packages: never shadow the interpreter's own packages
    if pydir in sys.path:
        sys.path.remove(pydir)
    sys.path.insert(0, pydir)
    for name in [m for m in sys.modules if m == "lsst" or m.startswith("lsst.daf")]:
        del sys.modules[name]
    if not os.path.exists(os.path.join(pydir, "lsst", "daf", "relation", "version.py")):
        stub = types.ModuleType("lsst.daf.relation.version")
        stub.__version__ = "0.0.0+verif"
        stub.__all__ = ["__version__"]
        sys.modules["lsst.daf.relation.version"] = stub
    mod = importlib.import_module("lsst.daf.relation")
    got = os.path.realpath(os.path.dirname(mod.__file__))
    want = os.path.realpath(os.path.join(pydir, "lsst", "daf", "relation"))
    if got != want:
        raise SystemExit(f"INCONCLUSIVE reason=imported {got}, wanted {want}")
    _done = True
