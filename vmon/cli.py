"""Launcher for checks: shards a workload over worker subprocesses, merges what
the monitors observed, classifies violations against known_findings.json,
writes evidence and prints the verdict lines the harness expects.

Exit 0 = held on everything observed, 1 = unlisted violation (VIOLATION line),
2 = inconclusive (worker died / timed out / too few deciding observations).
"""
from __future__ import annotations

import argparse
import importlib
import json
import os
import random
import shutil
import signal
import subprocess
import sys
import time
import traceback

VERIF = os.path.dirname(os.path.dirname(os.path.abspath(__file__)))
LEVELS = ("exploration", "fault_enumeration", "model_checking", "proof", "translation_validation", "other")


def load_check(pid: str):
    return importlib.import_module(f"vmon.checks.{pid.lower()}")


class CaseTimeout(BaseException):
    """Raised by the per-case alarm; not an Exception, so that the broad handlers inside the
    checks (which classify library failures) can never mistake it for a library failure."""


def _alarm(signum, frame):
    raise CaseTimeout()


def bump(d: dict, k: str, n: int = 1):
    d[k] = d.get(k, 0) + n


def merge_counters(dst: dict, src: dict):
    for k, v in src.items():
        if isinstance(v, (int, float)):
            dst[k] = dst.get(k, 0) + v


def new_result() -> dict:
    return {
        "evaluations": 0,
        "counters": {},
        "skips": {},
        "sigs": [],
        "samples": [],
        "violations": [],
        "timeouts": 0,
        "harness_errors": [],
        "extra": {},
    }


def absorb(res: dict, out: dict, case, case_id: str, max_samples: int = 6):
    """Fold one run_case outcome into a shard result."""
    res["evaluations"] += out.get("evaluations", 1)
    merge_counters(res["counters"], out.get("counters", {}))
    if out.get("skip"):
        bump(res["skips"], out["skip"])
    sig = out.get("sig")
    if sig is not None:
        res["_sigset"].add(sig)
    for s in out.get("sigs", ()):  # several signatures from one case
        res["_sigset"].add(s)
    if out.get("sample") is not None and len(res["samples"]) < max_samples and (sig is not None or out.get("sigs")):
        res["samples"].append(out["sample"])
    for v in out.get("violations", ()):
        v = dict(v)
        v["case_id"] = case_id
        # keep a few witnesses per (kind, mechanism) so that a frequent known finding can
        # never crowd out a different violation
        gk = f"{v.get('kind')}|{v.get('mech')}"
        seen = res.setdefault("_stored_per_group", {})
        if seen.get(gk, 0) < 4:
            seen[gk] = seen.get(gk, 0) + 1
            v["case"] = v.get("case") or case
            res["violations"].append(v)
        else:
            bump(res["counters"], "violations_not_stored")
        bump(res["counters"], "violations_total")
        if v.get("mech"):
            bump(res["counters"], f"violations_mech_{v['mech']}")


def run_worker(args) -> int:
    check = load_check(args.check)
    if hasattr(check, "setup"):
        check.setup(args.tier)
    res = new_result()
    res["_sigset"] = set()
    signal.signal(signal.SIGALRM, _alarm)
    per_case = getattr(check, "CASE_TIMEOUT", 30)
    t0 = time.time()
    deadline = t0 + args.budget_s if args.budget_s else None
    if hasattr(check, "run_shard"):
        # custom (non case-based) workload
        try:
            out = check.run_shard(args.seed, args.wid, args.nworkers, args.tier)
            absorb(res, out, None, f"{args.seed}:{args.wid}:shard", max_samples=12)
            res["extra"] = out.get("extra", {})
        except Exception:  # noqa: BLE001
            res["harness_errors"].append(traceback.format_exc()[-3000:])
    if hasattr(check, "gen_case"):
        for i in range(args.n):
            if deadline and time.time() > deadline:
                bump(res["counters"], "cases_cut_by_time_budget", args.n - i)
                break
            case_id = f"{args.seed}:{args.wid}:{i}"
            rng = random.Random(case_id)
            case = None
            try:
                signal.alarm(per_case)
                case = check.gen_case(rng, args.tier)
                out = check.run_case(case)
                signal.alarm(0)
                absorb(res, out, case, case_id)
            except CaseTimeout:
                res["timeouts"] += 1
            except Exception:  # noqa: BLE001
                signal.alarm(0)
                if len(res["harness_errors"]) < 5:
                    res["harness_errors"].append({"case_id": case_id, "case": case, "tb": traceback.format_exc()[-3000:]})
                else:
                    bump(res["counters"], "harness_errors_not_stored")
            finally:
                signal.alarm(0)
    if hasattr(check, "teardown"):
        merge_counters(res["counters"], check.teardown() or {})
    res["sigs"] = sorted(res.pop("_sigset"))
    res.pop("_stored_per_group", None)
    res["wall_s"] = time.time() - t0
    with open(args.out, "w") as f:
        json.dump(res, f, default=str)
    return 0


def load_findings() -> list:
    path = os.path.join(VERIF, "known_findings.json")
    if not os.path.exists(path):
        return []
    with open(path) as f:
        data = json.load(f)
    return data.get("findings", [])


def out_dir(kind: str) -> str:
    """evidence/ and replays/ describe /repo itself; runs against a scratch copy
    (VERIF_REPO set, e.g. by the seeded-change self-test) write elsewhere."""
    alt = os.environ.get("VERIF_REPO")
    if alt and os.path.realpath(alt) != os.path.realpath("/repo"):
        d = os.path.join(VERIF, ".work", "alt", os.path.basename(alt.rstrip("/")), kind)
    else:
        d = os.path.join(VERIF, kind)
    os.makedirs(d, exist_ok=True)
    return d


def write_evidence(pid, check, tier, seed, merged, wall, n_viol, extra_cov=None):
    level = getattr(check, "LEVEL", "exploration")
    sigs = merged["sigs"]
    cov = {
        "evaluations": int(merged["evaluations"]),
        "distinct_nontrivial": len(sigs),
        "rule": getattr(check, "RULE", ""),
        "samples": merged["samples"][:8] or ["(no non-trivial case observed)"],
        "monitor_counters": merged["counters"],
        "skipped": merged["skips"],
        "timeouts": merged["timeouts"],
        "signature_examples": sigs[:12],
    }
    if level == "translation_validation":
        cov["programs"] = int(merged["counters"].get("programs_compared", merged["evaluations"]))
        cov["disagreements_checked"] = int(merged["counters"].get("disagreements_checked", 0))
    cov.update(merged.get("extra", {}))
    if extra_cov:
        cov.update(extra_cov)
    ev = {
        "property_id": pid,
        "tier": tier,
        "seed": seed,
        "level": level,
        "coverage": cov,
        "assumptions": list(getattr(check, "ASSUMPTIONS", [])),
        "wall_s": round(wall, 2),
        "violations": n_viol,
    }
    path = os.path.join(out_dir("evidence"), f"{pid}.json")
    tmp = path + ".tmp"
    with open(tmp, "w") as f:
        json.dump(ev, f, indent=1, default=str)
    os.replace(tmp, path)
    return path


def run_parent(args) -> int:
    pid = args.check.upper()
    check = load_check(pid)
    tier = args.tier
    seed = args.seed
    b = check.budget(tier)
    if os.environ.get("VERIF_BUDGET_S"):
        # exploration aid for sweeps: cap the per-worker time budget (never raises it above the check's own)
        b = dict(b, budget_s=min(int(os.environ["VERIF_BUDGET_S"]), b.get("budget_s") or 10**9))
    nworkers = min(b.get("workers", 4), os.cpu_count() or 4)
    total = b.get("cases", 0)
    per = (total + nworkers - 1) // nworkers if total else 0
    work = os.path.join(VERIF, ".work", f"{pid}-{os.getpid()}")
    os.makedirs(work, exist_ok=True)
    t0 = time.time()
    procs = []
    env = dict(os.environ)
    env.setdefault("PYTHONHASHSEED", "0")
    env["DAF_RELATION_VMON"] = "1"
    for w in range(nworkers):
        out = os.path.join(work, f"w{w}.json")
        cmd = [
            sys.executable, "-m", "vmon.cli", "--worker", pid, "--tier", tier, "--seed", str(seed),
            "--wid", str(w), "--nworkers", str(nworkers), "--n", str(per), "--out", out,
            "--budget-s", str(b.get("budget_s", 0)),
        ]
        log = open(os.path.join(work, f"w{w}.log"), "w")
        procs.append((w, out, subprocess.Popen(cmd, cwd=VERIF, env=env, stdout=log, stderr=subprocess.STDOUT), log))
    watchdog = b.get("watchdog_s", 1800)
    inconclusive = []
    merged = new_result()
    sigset = set()
    for w, out, p, log in procs:
        remaining = max(1.0, watchdog - (time.time() - t0))
        try:
            rc = p.wait(timeout=remaining)
        except subprocess.TimeoutExpired:
            p.kill()
            inconclusive.append(f"worker {w} exceeded watchdog {watchdog}s")
            continue
        finally:
            log.close()
        if rc != 0 or not os.path.exists(out):
            tail = ""
            try:
                with open(os.path.join(work, f"w{w}.log")) as f:
                    tail = f.read()[-600:].replace("\n", " | ")
            except OSError:
                pass
            inconclusive.append(f"worker {w} exited {rc}: {tail}")
            continue
        with open(out) as f:
            r = json.load(f)
        merged["evaluations"] += r["evaluations"]
        merge_counters(merged["counters"], r["counters"])
        merge_counters(merged["skips"], r["skips"])
        sigset.update(r["sigs"])
        for s in r["samples"]:
            if len(merged["samples"]) < 8:
                merged["samples"].append(s)
        merged["violations"].extend(r["violations"])
        merged["timeouts"] += r["timeouts"]
        merged["harness_errors"].extend(r["harness_errors"])
        for k, v in r.get("extra", {}).items():
            if isinstance(v, (int, float)) and not isinstance(v, bool) and isinstance(merged["extra"].get(k, 0), (int, float)):
                merged["extra"][k] = merged["extra"].get(k, 0) + v
            elif isinstance(v, list) and isinstance(merged["extra"].get(k, []), list):
                merged["extra"][k] = (merged["extra"].get(k, []) + v)[:40]
            else:
                merged["extra"].setdefault(k, v)
    merged["sigs"] = sorted(sigset)
    wall = time.time() - t0

    # ---- classify violations
    findings = [f for f in load_findings() if f.get("property") == pid]
    open_keys = {f["key"]: f for f in findings if f.get("status") == "open"}
    known_seen: dict = {}
    unlisted = []
    suspect = []
    for v in merged["violations"]:
        mech = v.get("mech")
        if str(v.get("kind", "")).startswith(("MONITOR-ERROR", "ORACLE-SUSPECT", "INCONCLUSIVE-")):
            # the machinery doubts itself (its references disagree with each other, a hook missed
            # events, a thread got stuck): that is neither "held" nor a violation of the property
            suspect.append(v)
        elif mech and mech in open_keys:
            known_seen.setdefault(mech, []).append(v)
        else:
            unlisted.append(v)
    merged["counters"]["known_finding_hits"] = sum(len(v) for v in known_seen.values())
    extra_cov = {"known_findings_seen": {k: len(v) for k, v in known_seen.items()}}

    rc = 0
    lines = []
    for key, f in open_keys.items():
        # one line per listed finding, whether or not this run happened to hit it
        vs = known_seen.get(key, [])
        total = merged["counters"].get(f"violations_mech_{key}", len(vs))
        eg = f", e.g. {' '.join(str(vs[0].get('detail', '')).split())[:160]}" if vs else ""
        lines.append(f"KNOWN-FINDING: property={pid} {key}: {f.get('what', '')} (observed {total}x in this run{eg})")
    if unlisted:
        replay_dir = out_dir("replays")
        seen_kinds = {}
        for n, v in enumerate(unlisted):
            kind = (v.get("kind"), v.get("mech"))
            if seen_kinds.get(kind, 0) >= 3:
                continue
            seen_kinds[kind] = seen_kinds.get(kind, 0) + 1
            path = os.path.join(replay_dir, f"{pid}-{seed}-{n}.json")
            with open(path, "w") as fh:
                json.dump({"property": pid, "tier": tier, "seed": seed, "violation": {k: x for k, x in v.items() if k != "case"}, "case": v.get("case")}, fh, indent=1, default=str)
            lines.append(f"VIOLATION property={pid} replay={path}")
            lines.append(f"  kind={v.get('kind')} mech={v.get('mech')} detail={' '.join(str(v.get('detail')).split())[:400]}")
        rc = 1
    # ---- inconclusive conditions (never reported as held)
    if suspect:
        inconclusive.append(f"{len(suspect)} observation(s) in which the monitor doubts itself, e.g. {suspect[0].get('kind')}: {' '.join(str(suspect[0].get('detail')).split())[:300]}")
    if merged["harness_errors"]:
        he = merged["harness_errors"][0]
        inconclusive.append("harness error: " + (he if isinstance(he, str) else he.get("tb", ""))[-700:].replace("\n", " | "))
    mins = dict(getattr(check, "MIN_OBS", {}))
    for k, need in mins.items():
        have = merged["counters"].get(k, 0) if k != "distinct_nontrivial" else len(merged["sigs"])
        if have < need:
            inconclusive.append(f"deciding monitor '{k}' observed {have} < {need}")
    if merged["evaluations"] < 1 or len(merged["sigs"]) < 2:
        inconclusive.append(f"too few observations (evaluations={merged['evaluations']}, distinct={len(merged['sigs'])})")
    if merged["timeouts"] > max(3, merged["evaluations"] // 200):
        inconclusive.append(f"{merged['timeouts']} case timeouts")

    write_evidence(pid, check, tier, seed, merged, wall, len(unlisted), extra_cov)
    for ln in lines:
        print(ln)
    shutil.rmtree(work, ignore_errors=True)
    if rc == 1:
        print(f"FAILED property={pid} unlisted_violations={len(unlisted)} evaluations={merged['evaluations']}")
        return 1
    if inconclusive:
        for r in inconclusive:
            print(f"INCONCLUSIVE property={pid} reason={r}")
        return 2
    print(
        f"HELD property={pid} tier={tier} seed={seed} evaluations={merged['evaluations']} "
        f"distinct_nontrivial={len(merged['sigs'])} skipped={sum(merged['skips'].values())} "
        f"known_findings={len(known_seen)} wall={wall:.1f}s"
    )
    return 0


def run_replay(args) -> int:
    pid = args.check.upper()
    check = load_check(pid)
    if hasattr(check, "setup"):
        check.setup("quick")
    with open(args.replay) as f:
        data = json.load(f)
    case = data.get("case", data)
    if case is None:
        print("replay file has no case (shard-level violation); re-run the check with the same seed")
        return 2
    out = check.run_case(case)
    print(json.dumps({k: v for k, v in out.items() if k != "sample"}, indent=1, default=str)[:6000])
    if out.get("violations"):
        print(f"VIOLATION property={pid} replay={args.replay}")
        return 1
    print(f"HELD property={pid} (replayed case shows no violation)")
    return 0


def main(argv=None) -> int:
    ap = argparse.ArgumentParser()
    ap.add_argument("check")
    ap.add_argument("--tier", default=os.environ.get("VERIF_TIER", "quick"), choices=["quick", "thorough"])
    ap.add_argument("--seed", type=int, default=int(os.environ.get("VERIF_SEED", "0")))
    ap.add_argument("--replay")
    ap.add_argument("--worker", action="store_true")
    ap.add_argument("--wid", type=int, default=0)
    ap.add_argument("--nworkers", type=int, default=1)
    ap.add_argument("--n", type=int, default=0)
    ap.add_argument("--out")
    ap.add_argument("--budget-s", type=float, default=0)
    args = ap.parse_args(argv)
    if args.worker:
        return run_worker(args)
    if args.replay:
        return run_replay(args)
    return run_parent(args)


if __name__ == "__main__":
    sys.exit(main())
