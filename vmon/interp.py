"""Independent interpreter of *library* objects (column expressions, unary and
binary operations, whole relation trees) over rows that are ``dict`` keyed by
column tag.  It re-implements the documented semantics by structural matching
on the public dataclasses and shares no code with either engine.
"""
from __future__ import annotations

import functools

from . import bootstrap

bootstrap.ensure()

import lsst.daf.relation as R  # noqa: E402
from lsst.daf.relation import sql as Rsql  # noqa: E402

_FUNCS = {
    "__neg__": lambda a: -a,
    "__add__": lambda a, b: a + b,
    "__sub__": lambda a, b: a - b,
    "__mul__": lambda a, b: a * b,
    "__floordiv__": lambda a, b: a // b,
    "__eq__": lambda a, b: a == b,
    "__ne__": lambda a, b: a != b,
    "__lt__": lambda a, b: a < b,
    "__le__": lambda a, b: a <= b,
    "__gt__": lambda a, b: a > b,
    "__ge__": lambda a, b: a >= b,
    "vm_only_it": lambda a: a * 2 + 1,
    "vm_only_sql": lambda a: a * 2 + 1,
}


class Unsupported(Exception):
    pass


def eval_expr(e, row):
    if isinstance(e, R.ColumnLiteral):
        return e.value
    if isinstance(e, R.ColumnReference):
        return row[e.tag]
    if isinstance(e, R.ColumnFunction):
        f = _FUNCS.get(e.name)
        if f is None:
            raise Unsupported(e.name)
        return f(*[eval_expr(a, row) for a in e.args])
    raise Unsupported(type(e).__name__)


def eval_container(c, row):
    if isinstance(c, R.ColumnRangeLiteral):
        r = c.value
        return _RangeSet(r.start, r.stop, r.step)
    if isinstance(c, R.ColumnExpressionSequence):
        return [eval_expr(i, row) for i in c.items]
    raise Unsupported(type(c).__name__)


class _RangeSet:
    def __init__(self, start, stop, step):
        self.a = (start, stop, step)

    def __contains__(self, v):
        start, stop, step = self.a
        if step > 0:
            return start <= v < stop and (v - start) % step == 0
        return stop < v <= start and (start - v) % (-step) == 0


def eval_pred(p, row) -> bool:
    if isinstance(p, R.PredicateLiteral):
        return bool(p.value)
    if isinstance(p, R.PredicateReference):
        return bool(row[p.tag])
    if isinstance(p, R.PredicateFunction):
        f = _FUNCS.get(p.name)
        if f is None:
            raise Unsupported(p.name)
        return bool(f(*[eval_expr(a, row) for a in p.args]))
    if isinstance(p, R.LogicalAnd):
        return all(eval_pred(q, row) for q in p.operands)
    if isinstance(p, R.LogicalOr):
        return any(eval_pred(q, row) for q in p.operands)
    if isinstance(p, R.LogicalNot):
        return not eval_pred(p.operand, row)
    if isinstance(p, R.ColumnInContainer):
        v = eval_expr(p.item, row)
        return v in eval_container(p.container, row)
    raise Unsupported(type(p).__name__)


def expr_refs(e) -> set:
    """Tags syntactically referenced anywhere in an expression/predicate/container."""
    if isinstance(e, (R.ColumnReference, R.PredicateReference)):
        return {e.tag}
    if isinstance(e, (R.ColumnFunction, R.PredicateFunction)):
        return set().union(*[expr_refs(a) for a in e.args])
    if isinstance(e, (R.LogicalAnd, R.LogicalOr)):
        return set().union(*[expr_refs(a) for a in e.operands]) if e.operands else set()
    if isinstance(e, R.LogicalNot):
        return expr_refs(e.operand)
    if isinstance(e, R.ColumnInContainer):
        return expr_refs(e.item) | expr_refs(e.container)
    if isinstance(e, R.ColumnExpressionSequence):
        return set().union(*[expr_refs(a) for a in e.items]) if e.items else set()
    return set()


def sort_rows(rows, terms):
    def cmp(r1, r2):
        for t in terms:
            v1, v2 = eval_expr(t.expression, r1), eval_expr(t.expression, r2)
            if v1 == v2:
                continue
            lt = v1 < v2
            if t.ascending:
                return -1 if lt else 1
            return 1 if lt else -1
        return 0

    return sorted(rows, key=functools.cmp_to_key(cmp))


def dedup_rows(rows):
    seen = set()
    out = []
    for r in rows:
        k = frozenset(r.items())
        if k not in seen:
            seen.add(k)
            out.append(r)
    return out


def join_rows(lhs, rhs, common, predicate):
    out = []
    for left in lhs:
        for right in rhs:
            if all(left[c] == right[c] for c in common):
                row = {**left, **right}
                if predicate is None or eval_pred(predicate, row):
                    out.append(row)
    return out


class IllFormed(Exception):
    """An operation is not well-formed on the rows it would be applied to."""


def apply_unary(op, rows, columns, leaf_rows=None):
    """Apply a library unary operation to ``rows`` (list of dict) whose column
    set is ``columns``; returns (rows, columns).  Raises `IllFormed` when the
    operation's requirements are not met by ``columns``.
    """
    columns = frozenset(columns)
    if hasattr(op, "vmon_apply"):
        return op.vmon_apply(list(rows)), columns
    if isinstance(op, R.Identity):
        return list(rows), columns
    if isinstance(op, R.Calculation):
        need = expr_refs(op.expression)
        if not need <= columns:
            raise IllFormed(f"{op} needs {set(need - columns)}")
        if op.tag in columns:
            raise IllFormed(f"{op} tag already present")
        return [{**r, op.tag: eval_expr(op.expression, r)} for r in rows], columns | {op.tag}
    if isinstance(op, R.Deduplication):
        return dedup_rows(rows), columns
    if isinstance(op, R.Projection):
        if not op.columns <= columns:
            raise IllFormed(f"{op} needs {set(op.columns - columns)}")
        return [{k: r[k] for k in op.columns} for r in rows], frozenset(op.columns)
    if isinstance(op, R.Selection):
        need = expr_refs(op.predicate)
        if not need <= columns:
            raise IllFormed(f"{op} needs {set(need - columns)}")
        return [r for r in rows if eval_pred(op.predicate, r)], columns
    if isinstance(op, R.Slice):
        return list(rows[op.start : op.stop]), columns
    if isinstance(op, R.Sort):
        need = set().union(*[expr_refs(t.expression) for t in op.terms]) if op.terms else set()
        if not need <= columns:
            raise IllFormed(f"{op} needs {set(need - columns)}")
        return sort_rows(rows, op.terms), columns
    if isinstance(op, R.PartialJoin):
        fixed_rows, fixed_cols = eval_tree(op.fixed, leaf_rows)
        j = op.binary
        if j.max_columns != j.min_columns:
            common = frozenset(t for t in columns & fixed_cols if t.is_key)
            if j.max_columns is not None:
                common &= j.max_columns
            if not common >= j.min_columns:
                raise IllFormed("join min_columns not satisfied")
        else:
            common = j.min_columns
            if not (common <= columns and common <= fixed_cols):
                raise IllFormed(f"join common columns {set(common)} missing")
        need = expr_refs(j.predicate)
        if not need <= (columns | fixed_cols):
            raise IllFormed(f"join predicate needs {set(need - columns - fixed_cols)}")
        if op.fixed_is_lhs:
            out = join_rows(fixed_rows, rows, common, j.predicate)
        else:
            out = join_rows(rows, fixed_rows, common, j.predicate)
        return out, columns | fixed_cols
    raise Unsupported(type(op).__name__)


def eval_tree(rel, leaf_rows):
    """Evaluate a library relation tree.  ``leaf_rows(leaf) -> list[dict]`` supplies
    leaf content; markers are transparent (payloads are ignored).
    Returns (rows, columns)."""
    if isinstance(rel, R.LeafRelation):
        return [dict(r) for r in leaf_rows(rel)], frozenset(rel.columns)
    if isinstance(rel, R.UnaryOperationRelation):
        rows, cols = eval_tree(rel.target, leaf_rows)
        return apply_unary(rel.operation, rows, cols, leaf_rows)
    if isinstance(rel, R.BinaryOperationRelation):
        lrows, lcols = eval_tree(rel.lhs, leaf_rows)
        rrows, rcols = eval_tree(rel.rhs, leaf_rows)
        op = rel.operation
        if isinstance(op, R.Chain):
            if lcols != rcols:
                raise IllFormed("chain columns differ")
            return lrows + rrows, lcols
        if isinstance(op, R.Join):
            try:
                common = op.common_columns
            except R.ColumnError:
                raise IllFormed("join common columns unresolved")
            if not (common <= lcols and common <= rcols):
                raise IllFormed("join common columns missing")
            return join_rows(lrows, rrows, common, op.predicate), lcols | rcols
        raise Unsupported(type(op).__name__)
    if isinstance(rel, R.MarkerRelation):
        return eval_tree(rel.target, leaf_rows)
    raise Unsupported(type(rel).__name__)


def eval_select_slots(sel, leaf_rows):
    """Evaluate a `Select` via skip_to + recorded slots (the view the SQL
    compiler takes) instead of via ``target``."""
    assert isinstance(sel, Rsql.Select)
    rows, cols = eval_tree(sel.skip_to, leaf_rows)
    if sel.sort.terms:
        rows, cols = apply_unary(sel.sort, rows, cols)
    if sel.projection is not None:
        rows, cols = apply_unary(sel.projection, rows, cols)
    if sel.deduplication is not None:
        rows, cols = apply_unary(sel.deduplication, rows, cols)
    if sel.slice.start or sel.slice.stop is not None:
        rows, cols = apply_unary(sel.slice, rows, cols)
    return rows, cols


def children(rel):
    if isinstance(rel, R.UnaryOperationRelation):
        return [rel.target]
    if isinstance(rel, R.BinaryOperationRelation):
        return [rel.lhs, rel.rhs]
    if isinstance(rel, R.MarkerRelation):
        return [rel.target]
    return []


def walk(rel, seen=None):
    """Every node of a tree once (by identity), pre-order; also descends into
    Select.skip_to (normally already reachable through target)."""
    if seen is None:
        seen = set()
    if id(rel) in seen:
        return
    seen.add(id(rel))
    yield rel
    for c in children(rel):
        yield from walk(c, seen)
    if isinstance(rel, Rsql.Select):
        yield from walk(rel.skip_to, seen)


def canon(rows):
    """Order-insensitive canonical form (multiset) with string column names."""
    return sorted(tuple(sorted((str(k), v) for k, v in r.items())) for r in rows)


def named(rows):
    return [{(k if isinstance(k, str) else k.qualified_name): v for k, v in r.items()} for r in rows]


def subexpressions(e):
    """Every node of an expression / predicate / container tree (pre-order)."""
    yield e
    if isinstance(e, (R.ColumnFunction, R.PredicateFunction)):
        for a in e.args:
            yield from subexpressions(a)
    elif isinstance(e, (R.LogicalAnd, R.LogicalOr)):
        for a in e.operands:
            yield from subexpressions(a)
    elif isinstance(e, R.LogicalNot):
        yield from subexpressions(e.operand)
    elif isinstance(e, R.ColumnInContainer):
        yield from subexpressions(e.item)
        yield from subexpressions(e.container)
    elif isinstance(e, R.ColumnExpressionSequence):
        for a in e.items:
            yield from subexpressions(a)


def supported_by(e, engine) -> bool:
    """Whether every function in an expression / predicate / container declares support for
    ``engine`` - computed from ``supporting_engine_types`` directly, not through the library's
    own ``is_supported_by`` (so that a defect there cannot fool the monitor)."""
    for node in subexpressions(e):
        if isinstance(node, (R.ColumnFunction, R.PredicateFunction)):
            types = node.supporting_engine_types
            if types is not None and not isinstance(engine, tuple(types)):
                return False
    return True
