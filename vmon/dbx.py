"""SQLite adapter, real `Processor` subclass, and program -> library builder."""
from __future__ import annotations

import random

from . import bootstrap

bootstrap.ensure()

import sqlalchemy  # noqa: E402
from sqlalchemy.dialects.sqlite.base import SQLiteCompiler  # noqa: E402

import lsst.daf.relation as R  # noqa: E402
from lsst.daf.relation import iteration, sql  # noqa: E402

from .exprs import elib, plib  # noqa: E402
from .tags import T  # noqa: E402


class ShimCompiler(SQLiteCompiler):
    """SQLAlchemy renders a compound-select operand of a compound select as
    ``( ... )``, which SQLite's grammar rejects (PostgreSQL accepts it).  Render
    the semantically identical ``SELECT * FROM ( ... )`` instead."""

    def visit_select_statement_grouping(self, grouping, **kwargs):
        return "SELECT * FROM (" + grouping.element._compiler_dispatch(self, **kwargs) + ")"


class DuplicateIdentifiers(Exception):
    """Two column tags of one relation map to the same SQL identifier."""


class DB:
    def __init__(self, shim: bool = True, reverse: bool = False):
        self.sa = sqlalchemy.create_engine("sqlite://")
        if shim:
            self.sa.dialect.statement_compiler = ShimCompiler
        self.md = sqlalchemy.MetaData()
        self.conn = self.sa.connect()
        if reverse:
            self.conn.exec_driver_sql("PRAGMA reverse_unordered_selects=1")
        self.n = 0
        self.statements = 0

    def close(self):
        try:
            self.conn.close()
            self.sa.dispose()
        except Exception:
            pass

    def make_table(self, name, tags, rows):
        """``rows``: list of dict tag -> value."""
        self.n += 1
        tags = list(tags)
        cols = [sqlalchemy.Column(t.qualified_name, sqlalchemy.Integer) for t in tags] or [
            sqlalchemy.Column(sql.Engine.EMPTY_COLUMNS_NAME, sqlalchemy.Boolean)
        ]
        tbl = sqlalchemy.Table(f"{name}_{self.n}", self.md, *cols)
        tbl.create(self.conn)
        if rows:
            if tags:
                self.conn.execute(tbl.insert(), [{t.qualified_name: r[t] for t in tags} for r in rows])
            else:
                self.conn.execute(tbl.insert(), [{sql.Engine.EMPTY_COLUMNS_NAME: True} for _ in rows])
        return sql.Payload(tbl, columns_available={t: tbl.columns[t.qualified_name] for t in tags})

    def run(self, rel, engine=None):
        engine = engine if engine is not None else rel.engine
        ex = engine.to_executable(rel)
        return self.fetch(ex, rel.columns, engine)

    def fetch(self, executable, columns, engine=None):
        """Rows as dict tag -> value.  Result columns are looked up under the identifier the engine
        itself assigns to each tag (`sql.Engine.get_identifier`; by default the qualified name); two
        tags of one relation must not share an identifier, or the result would not have one value
        per column."""
        cols = list(columns)
        ident = {t: (engine.get_identifier(t) if engine is not None and hasattr(engine, "get_identifier") else t.qualified_name) for t in cols}
        if len(set(ident.values())) < len(ident):
            raise DuplicateIdentifiers(f"columns {sorted(map(str, cols))} are given the SQL identifiers {sorted(ident.values())}")
        self.statements += 1
        out = []
        for r in self.conn.execute(executable).mappings():
            out.append({t: r[ident[t]] for t in cols})
        return out

    def text(self, executable) -> str:
        return str(executable.compile(self.sa, compile_kwargs={"literal_binds": True}))


class VProcessor(R.Processor):
    """A real Processor: SQL -> iteration by running the compiled query,
    iteration -> SQL through a temporary table, iteration -> iteration by
    executing.  Every hook call is logged with the source tree."""

    def __init__(self, db: DB | None):
        self.db = db
        self.log: list = []  # every hook call, recorded on entry
        self.completed: list = []  # hook calls that returned a payload

    def transfer(self, source, destination, materialize_as):
        entry = ("transfer", source, destination, materialize_as)
        self.log.append(entry)
        payload = self._transfer(source, destination, materialize_as)
        self.completed.append(entry)
        return payload

    def materialize(self, target, name):
        entry = ("materialize", target, name)
        self.log.append(entry)
        payload = self._materialize(target, name)
        self.completed.append(entry)
        return payload

    def _transfer(self, source, destination, materialize_as):
        if isinstance(source.engine, sql.Engine) and isinstance(destination, iteration.Engine):
            return iteration.RowSequence(self.db.run(source))
        if isinstance(source.engine, iteration.Engine) and isinstance(destination, sql.Engine):
            rows = list(source.engine.execute(source))
            return self.db.make_table(materialize_as or "xfer", list(source.columns), rows)
        if isinstance(source.engine, iteration.Engine) and isinstance(destination, iteration.Engine):
            return source.engine.execute(source).materialized()
        if isinstance(source.engine, sql.Engine) and isinstance(destination, sql.Engine):
            rows = self.db.run(source)
            return self.db.make_table(materialize_as or "xfer", list(source.columns), rows)
        raise NotImplementedError

    def _materialize(self, target, name):
        if isinstance(target.engine, iteration.Engine):
            return target.engine.execute(target).materialized()
        rows = self.db.run(target)
        return self.db.make_table(name, list(target.columns), rows)


class InjectedFault(Exception):
    """Raised by the fault injectors (a leaf payload that fails while it is being read, a Processor
    hook that fails): stands for an I/O error in user code underneath the library."""


class CountingRows(iteration.MaterializedRowIterable):
    """Leaf payload that exposes only ``__iter__`` / ``__len__`` so that every
    access by the engine is visible to the laziness monitor.  ``fail_at = k`` makes the next
    iterations fail with `InjectedFault` when row k is due (k == len: after the last row)."""

    def __init__(self, rows, name, log):
        self._rows = rows
        self.name = name
        self.log = log
        self.starts = 0
        self.pulls = 0
        self.fail_at = None
        self.faults = 0

    def __len__(self):
        return len(self._rows)

    def __iter__(self):
        self.starts += 1
        self.log.append(("start", self.name))
        for i, r in enumerate(self._rows):
            if self.fail_at is not None and i >= self.fail_at:
                self.faults += 1
                raise InjectedFault(f"reading row {i} of {self.name}")
            self.pulls += 1
            yield r
        if self.fail_at is not None:
            self.faults += 1
            raise InjectedFault(f"closing {self.name}")


class CountingMapping(iteration.RowMapping):
    """A `RowMapping` leaf payload (rows keyed on a tuple of key columns) whose iterations are
    counted like those of `CountingRows`.  A deduplication whose key is the mapping's own key is
    documented to return the payload itself."""

    def __init__(self, unique_key, rows, name, log):
        super().__init__(unique_key, rows)
        self.name = name
        self.log = log
        self.starts = 0
        self.pulls = 0
        self.fail_at = None
        self.faults = 0

    def __iter__(self):
        self.starts += 1
        self.log.append(("start", self.name))
        for i, r in enumerate(self.rows.values()):
            if self.fail_at is not None and i >= self.fail_at:
                self.faults += 1
                raise InjectedFault(f"reading row {i} of {self.name}")
            self.pulls += 1
            yield r
        if self.fail_at is not None:
            self.faults += 1
            raise InjectedFault(f"closing {self.name}")


class FaultyProcessor(VProcessor):
    """A Processor whose ``fail_at``-th hook call fails before doing anything."""

    def __init__(self, db, fail_at):
        super().__init__(db)
        self.fail_at = fail_at
        self.ncalls = 0
        self.fired = False

    def _maybe_fail(self, what):
        self.ncalls += 1
        if self.ncalls == self.fail_at:
            self.fired = True
            raise InjectedFault(f"{what} hook call #{self.ncalls}")

    def transfer(self, source, destination, materialize_as):
        self._maybe_fail("transfer")
        return super().transfer(source, destination, materialize_as)

    def materialize(self, target, name):
        self._maybe_fail("materialize")
        return super().materialize(target, name)


class BuildFailure(Exception):
    def __init__(self, prog, exc):
        super().__init__(f"{type(exc).__name__}: {exc}")
        self.prog = prog
        self.exc = exc


class VIterEngine(iteration.Engine):
    """iteration.Engine with the documented hook for custom unary operations implemented for the
    extension operations of vmon/ext.py (a user's engine subclass would do the same)."""

    def apply_custom_unary_operation(self, operation, target):
        if hasattr(operation, "vmon_apply"):
            return iteration.RowSequence(operation.vmon_apply(list(self.execute(target))))
        return super().apply_custom_unary_operation(operation, target)


def make_engines(kinds=("sql", "it", "it2")):
    out = {}
    for k in kinds:
        if k.startswith("sql"):
            out[k] = sql.Engine(name=k)
            out[k].functions["vm_only_sql"] = lambda x: x * 2 + 1
            out[k].functions["vm_both"] = lambda x: x * 2 + 1
        else:
            out[k] = VIterEngine(name=k)
            out[k].functions["vm_only_it"] = lambda x: x * 2 + 1
            out[k].functions["vm_both"] = lambda x: x * 2 + 1
    return out


def opt_kwargs(opt, engines):
    if not opt:
        return {}
    kw = {}
    if opt.get("pe"):
        kw["preferred_engine"] = engines[opt["pe"]]
    if "bt" in opt:
        kw["backtrack"] = opt["bt"]
    if "tr" in opt:
        kw["transfer"] = opt["tr"]
    if "rq" in opt:
        kw["require_preferred_engine"] = opt["rq"]
    return kw


class Builder:
    """Build library relations from a program by calling the public factories."""

    def __init__(self, leaves: dict, engines: dict, db: DB | None = None, counting: bool = False):
        self.leaves = leaves
        self.engines = engines
        self.db = db
        self.counting = counting
        self.memo: dict = {}
        self.nodes: list = []  # (prog, relation) in construction order
        self.leaf_rows: dict = {}  # leaf name -> list of dict tag -> value
        self.leaf_rows_by_id: dict = {}  # id(LeafRelation) -> (LeafRelation, rows)
        self.leaf_payloads: dict = {}
        self.access_log: list = []
        self.expr_cache: dict = {}  # AST repr -> library expression object (equal ASTs share one object)

    def rows_of_leaf(self, leaf):
        # by object first: two leaves may carry the same library name (and compare equal) while
        # holding different rows
        hit = self.leaf_rows_by_id.get(id(leaf))
        if hit is not None and hit[0] is leaf:
            return hit[1]
        return self.leaf_rows[leaf.name]

    def make_leaf(self, name):
        spec = self.leaves[name]
        eng = self.engines[spec["engine"]]
        key_name = name
        name = spec.get("libname", name)  # two different leaves may carry the same library name
        tags = [T(c) for c in spec["cols"]]
        rows = [dict(zip(tags, r)) for r in spec["rows"]]
        self.leaf_rows[name] = rows
        self.leaf_rows[key_name] = rows
        kind = spec.get("kind", "normal")
        if kind == "doomed":
            return eng.make_doomed_relation(set(tags), messages=[f"{name} is doomed"], name=name)
        if kind == "identity":
            return eng.make_join_identity_relation(name=name)
        mn = spec.get("min", len(rows))
        mx = spec.get("max", len(rows))
        if isinstance(eng, sql.Engine):
            ins = list(rows)
            if spec.get("ins_seed") is not None:
                random.Random(spec["ins_seed"]).shuffle(ins)
            if spec.get("table_of"):
                # a second leaf over the same table: own LeafRelation, own Payload, shared Table object
                if spec["table_of"] not in self.leaf_payloads:
                    self.build(["leaf", spec["table_of"]])
                tbl = self.leaf_payloads[spec["table_of"]].from_clause
                payload = sql.Payload(tbl, columns_available={t: tbl.columns[t.qualified_name] for t in tags})
            else:
                payload = self.db.make_table(name, tags, ins)
            self.leaf_payloads[key_name] = payload
            return eng.make_leaf(set(tags), payload, name=name, min_rows=mn, max_rows=mx)
        if self.counting and spec.get("mapping_key") and self.counting == "with_mappings":
            key = tuple(T(c) for c in spec["mapping_key"])
            payload = CountingMapping(key, {tuple(r[k] for k in key): r for r in rows}, name, self.access_log)
        elif self.counting:
            payload = CountingRows(rows, name, self.access_log)
        elif spec.get("mapping_key"):
            key = tuple(T(c) for c in spec["mapping_key"])
            payload = iteration.RowMapping(key, {tuple(r[k] for k in key): r for r in rows})
        elif spec.get("lazy_chain") is not None:
            # rows delivered by a lazily chained iterable (e.g. several batches): re-iterable
            k = spec["lazy_chain"]
            payload = iteration.ChainRowIterable([iteration.RowSequence(rows[:k]), iteration.RowSequence(rows[k:])])
        else:
            payload = iteration.RowSequence(rows)
        self.leaf_payloads[key_name] = payload
        if spec.get("ctor") == "raw" or spec.get("lazy_chain") is not None:
            # (Engine.make_leaf wants a sized payload; the LeafRelation constructor takes any RowIterable)
            return R.LeafRelation(eng, frozenset(tags), payload, name=name, min_rows=mn, max_rows=mx)
        return eng.make_leaf(set(tags), payload, name=name)

    def build(self, prog):
        key = repr(prog)
        if key in self.memo:
            return self.memo[key]
        op = prog[0]
        if op == "leaf":
            args = ()
        elif op in ("chain", "join"):
            args = (self.build(prog[1]), self.build(prog[2]))
        else:
            args = (self.build(prog[1]),)
        try:
            rel = self.apply(prog, *args)
        except BuildFailure:
            raise
        except Exception as exc:  # noqa: BLE001
            raise BuildFailure(prog, exc) from exc
        if op == "leaf":
            node = rel
            while not isinstance(node, R.LeafRelation) and getattr(node, "target", None) is not None:
                node = node.target
            if isinstance(node, R.LeafRelation):
                self.leaf_rows_by_id[id(node)] = (node, self.leaf_rows[prog[1]])
        self.memo[key] = rel
        self.nodes.append((prog, rel))
        return rel

    def elib(self, e):
        """Library object for an expression AST; equal ASTs share one object within a case
        (users build an expression once and reuse it, so cached per-object state is exercised)."""
        k = "e" + repr(e)
        if k not in self.expr_cache:
            self.expr_cache[k] = elib(e)
        return self.expr_cache[k]

    def plib(self, p):
        k = "p" + repr(p)
        if k not in self.expr_cache:
            self.expr_cache[k] = plib(p)
        return self.expr_cache[k]

    def sweep_expressions(self):
        """Every expression object handed to the library in this case must still declare exactly
        the columns it references (cached required-column sets are shared mutable objects)."""
        from . import interp

        bad = []
        for obj in self.expr_cache.values():
            for node in interp.subexpressions(obj):
                if set(node.columns_required) != interp.expr_refs(node):
                    bad.append(f"{node}: declares {sorted(map(str, node.columns_required))}, references {sorted(map(str, interp.expr_refs(node)))}")
                    break
        return bad

    def apply(self, prog, *args):
        op = prog[0]
        E = self.engines
        if op == "leaf":
            return self.make_leaf(prog[1])
        if op == "chain":
            return args[0].chain(args[1])
        if op == "join":
            jopt = prog[4] if len(prog) > 4 and prog[4] else {}
            p = self.plib(prog[3]) if prog[3] is not None else None
            if jopt.get("minmax") is not None:
                # explicit, already resolved equality columns (possibly ones an operand lacks)
                cc = frozenset(T(x) for x in jopt["minmax"])
                j = R.Join(p if p is not None else R.Predicate.literal(True), min_columns=cc, max_columns=cc)
                if jopt.get("partial"):
                    return j.partial(args[1], is_lhs=bool(jopt.get("is_lhs"))).apply(args[0])
                return j.apply(args[0], args[1])
            if jopt.get("maxc") is not None:
                # the other public route: an explicit Join operation with max_columns (here always a
                # superset of the shared key columns, so the meaning is that of Relation.join)
                j = R.Join(p if p is not None else R.Predicate.literal(True), max_columns=frozenset(T(x) for x in jopt["maxc"]))
                if jopt.get("partial"):
                    return j.partial(args[1], is_lhs=bool(jopt.get("is_lhs"))).apply(args[0])
                return j.apply(args[0], args[1])
            return args[0].join(args[1], p, **{k: v for k, v in (("backtrack", jopt.get("bt")), ("transfer", jopt.get("tr"))) if v is not None})
        t = args[0]
        if op == "calc":
            return t.with_calculated_column(T(prog[2]), self.elib(prog[3]), **opt_kwargs(prog[4] if len(prog) > 4 else None, E))
        if op == "proj":
            return t.with_only_columns({T(c) for c in prog[2]}, **opt_kwargs(prog[3] if len(prog) > 3 else None, E))
        if op == "sel":
            return t.with_rows_satisfying(self.plib(prog[2]), **opt_kwargs(prog[3] if len(prog) > 3 else None, E))
        if op == "dedup":
            return t.without_duplicates(**opt_kwargs(prog[2] if len(prog) > 2 else None, E))
        if op == "sort":
            terms = [R.SortTerm(self.elib(e), asc) for e, asc in prog[2]]
            return t.sorted(terms, **opt_kwargs(prog[3] if len(prog) > 3 else None, E))
        if op == "slice":
            return t[prog[2] : prog[3]]
        if op == "mat":
            return t.materialized(name=prog[2])
        if op == "cap":
            from .ext import RowCap

            return RowCap(prog[2]).apply(t)
        if op == "rev":
            from .ext import Reverse

            return Reverse().apply(t)
        if op == "alt":
            from .ext import Alternate

            return Alternate().apply(t)
        if op == "mark":
            from .ext import Tagged

            return Tagged(target=t, label=prog[2])
        if op == "xfer":
            return t.transferred_to(E[prog[2]])
        raise AssertionError(prog)
