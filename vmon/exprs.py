"""Column-expression AST: direct evaluation, required columns, conversion to
library objects, and seeded generators.

AST (JSON lists), scalar expressions::

    ["ref", name] ["lit", int] ["neg", e] ["add"|"sub"|"mul", e1, e2]
    ["rfn", "neg"|"add"|..., [args], [engine kinds]]   # engine-restricted function

predicates::

    ["cmp", "eq|ne|lt|le|gt|ge", e1, e2] ["plit", bool] ["not", p]
    ["and"|"or", [p...], "ctor"|"factory"]
    ["inrange", e, [start, stop, step], "factory"|"ctor"] ["inseq", e, [e...], "list"|"tuple"]
    ["rcmp", op, e1, e2, [engine kinds]]               # engine-restricted predicate

Direct evaluation here shares no code with either engine of the library.
"""
from __future__ import annotations

import operator

from .tags import T

CMP = {
    "eq": operator.eq,
    "ne": operator.ne,
    "lt": operator.lt,
    "le": operator.le,
    "gt": operator.gt,
    "ge": operator.ge,
}
BIN = {"add": lambda a, b: a + b, "sub": lambda a, b: a - b, "mul": lambda a, b: a * b, "fdiv": lambda a, b: a // b}
# functions that exist in one engine kind only (registered in Engine.functions by dbx.make_engines):
# f(x) = 2x + 1.  Unlike the operator-named restricted functions these really cannot be evaluated
# by the other engine, so a tree that wrongly accepts them fails at execution.
ONLY = {"only_it": "vm_only_it", "only_sql": "vm_only_sql", "both": "vm_both"}
# "vm_both" is registered in EVERY engine's `functions`: an expression that restricts it to one engine
# kind through supporting_engine_types is still unsupported by the other kind, registered or not.
BIN_METHOD = {"add": "__add__", "sub": "__sub__", "mul": "__mul__", "fdiv": "__floordiv__"}


def ev(e, row):
    k = e[0]
    if k == "ref":
        return row[e[1]]
    if k == "lit":
        return e[1]
    if k == "neg":
        return -ev(e[1], row)
    if k in BIN:
        return BIN[k](ev(e[1], row), ev(e[2], row))
    if k == "rfn":
        args = [ev(a, row) for a in e[2]]
        if e[1] in ONLY:
            return args[0] * 2 + 1
        return -args[0] if e[1] == "neg" else BIN[e[1]](*args)
    raise AssertionError(e)


def in_range(v, start, stop, step) -> bool:
    """Membership in range(start, stop, step), computed arithmetically."""
    if step > 0:
        return start <= v < stop and (v - start) % step == 0
    return stop < v <= start and (start - v) % (-step) == 0


def pv(p, row) -> bool:
    k = p[0]
    if k == "cmp" or k == "rcmp":
        return bool(CMP[p[1]](ev(p[2], row), ev(p[3], row)))
    if k == "and":
        return all(pv(q, row) for q in p[1])
    if k == "or":
        return any(pv(q, row) for q in p[1])
    if k == "not":
        return not pv(p[1], row)
    if k == "plit":
        return bool(p[1])
    if k == "inrange":
        return in_range(ev(p[1], row), *p[2])
    if k == "inseq":
        v = ev(p[1], row)
        return any(v == ev(x, row) for x in p[2])
    raise AssertionError(p)


def ecols(e) -> set:
    k = e[0]
    if k == "ref":
        return {e[1]}
    if k == "lit":
        return set()
    if k == "neg":
        return ecols(e[1])
    if k == "rfn":
        return set().union(*[ecols(a) for a in e[2]])
    return ecols(e[1]) | ecols(e[2])


def pcols(p) -> set:
    k = p[0]
    if k == "cmp" or k == "rcmp":
        return ecols(p[2]) | ecols(p[3])
    if k in ("and", "or"):
        return set().union(*[pcols(q) for q in p[1]]) if p[1] else set()
    if k == "not":
        return pcols(p[1])
    if k == "plit":
        return set()
    if k == "inrange":
        return ecols(p[1])
    if k == "inseq":
        return ecols(p[1]).union(*[ecols(x) for x in p[2]])
    raise AssertionError(p)


def restricted_kinds(node) -> list:
    """All engine-kind restrictions mentioned anywhere in an expression/predicate."""
    out = []
    if isinstance(node, list):
        if node and node[0] in ("rfn",):
            out.append(tuple(node[3]))
        if node and node[0] in ("rcmp",):
            out.append(tuple(node[4]))
        for x in node:
            out.extend(restricted_kinds(x))
    return out


# ---------------------------------------------------------------- to library


def _engine_types(kinds):
    from lsst.daf.relation import iteration, sql

    m = {"sql": sql.Engine, "it": iteration.Engine}
    return tuple(m[k] for k in kinds)


def elib(e):
    from lsst.daf.relation import ColumnExpression

    k = e[0]
    if k == "ref":
        return ColumnExpression.reference(T(e[1]))
    if k == "lit":
        return ColumnExpression.literal(e[1])
    if k == "neg":
        return elib(e[1]).method("__neg__")
    if k == "rfn":
        name = ONLY[e[1]] if e[1] in ONLY else ("__neg__" if e[1] == "neg" else BIN_METHOD[e[1]])
        return ColumnExpression.function(
            name, *[elib(a) for a in e[2]], supporting_engine_types=_engine_types(e[3])
        )
    return elib(e[1]).method(BIN_METHOD[k], elib(e[2]))


def plib(p):
    from lsst.daf.relation import ColumnContainer, LogicalAnd, LogicalOr, Predicate

    k = p[0]
    if k == "cmp":
        return getattr(elib(p[2]), p[1])(elib(p[3]))
    if k == "rcmp":
        return elib(p[2]).predicate_method(
            f"__{p[1]}__", elib(p[3]), supporting_engine_types=_engine_types(p[4])
        )
    if k in ("and", "or"):
        ops = tuple(plib(q) for q in p[1])
        how = p[2] if len(p) > 2 else "ctor"
        if how == "factory":
            return Predicate.logical_and(*ops) if k == "and" else Predicate.logical_or(*ops)
        return LogicalAnd(ops) if k == "and" else LogicalOr(ops)
    if k == "not":
        return plib(p[1]).logical_not()
    if k == "plit":
        return Predicate.literal(p[1])
    if k == "inrange":
        how = p[3] if len(p) > 3 else "factory"
        if how == "ctor":
            # the public dataclass constructor (documented as what the factory returns)
            from lsst.daf.relation import ColumnRangeLiteral

            return ColumnRangeLiteral(range(*p[2])).contains(elib(p[1]))
        return ColumnContainer.range_literal(range(*p[2])).contains(elib(p[1]))
    if k == "inseq":
        how = p[3] if len(p) > 3 else "tuple"
        items = [elib(x) for x in p[2]]
        return ColumnContainer.sequence(items if how == "list" else tuple(items)).contains(elib(p[1]))
    raise AssertionError(p)


# ---------------------------------------------------------------- generators


# Probability that a generated numeric literal is a float or bool numerically equal to the integer
# drawn (1 -> 1.0 / True).  Such literals compare and hash equal - and so do the library expressions
# holding them - without being the same value.  Set by checks that compare results type-sensitively
# or on rows where int and float arithmetic differ; 0 keeps the pure-integer language (C12).
LIT_KINDS = 0.0
# Probability that a membership test uses a long (20-120 items) all-literal sequence.
LONG_SEQ = 0.02


def other_kind(v, rng):
    """A numerically equal value of another Python type."""
    kinds = [int(v), float(v)] + ([bool(v)] if v in (0, 1) else [])
    kinds = [k for k in kinds if type(k) is not type(v)]
    return rng.choice(kinds)


def gen_lit(rng, lo, hi):
    v = rng.randint(lo, hi)
    if LIT_KINDS and rng.random() < LIT_KINDS:
        return other_kind(v, rng)
    return v


def reflavour(node, rng):
    """Copy of an expression / predicate / program AST in which literals are replaced (each with
    probability 0.7) by numerically equal values of another type: a look-alike that compares equal
    to the original wherever equality is value equality."""
    if not isinstance(node, list):
        return node
    if node and node[0] == "lit" and isinstance(node[1], (int, float)):
        return ["lit", other_kind(node[1], rng) if rng.random() < 0.7 else node[1]]
    if node and node[0] == "inrange":
        return ["inrange", reflavour(node[1], rng), node[2], *node[3:]]
    return [reflavour(x, rng) for x in node]


def gen_e(rng, cols, depth=2, need_col=False, lit_range=(-3, 3)):
    cols = sorted(cols)
    if depth <= 0 or rng.random() < 0.35:
        if cols and (need_col or rng.random() < 0.75):
            return ["ref", rng.choice(cols)]
        return ["lit", gen_lit(rng, *lit_range)]
    k = rng.choice(["neg", "add", "sub", "mul"])
    if k == "neg":
        return ["neg", gen_e(rng, cols, depth - 1, need_col, lit_range)]
    return [k, gen_e(rng, cols, depth - 1, need_col, lit_range), gen_e(rng, cols, depth - 1, False, lit_range)]


def gen_range(rng, wild=False):
    if wild:
        return [rng.randint(-6, 7), rng.randint(-6, 7), rng.choice([-5, -3, -2, -1, 1, 2, 3, 5])]
    # Non-negative members only: the documented SQL translation uses ``%``.
    start = rng.randint(0, 3)
    return [start, rng.randint(0, 7), rng.randint(1, 3)]


def gen_p(rng, cols, depth=2, wild_ranges=False, leaf_lits=True):
    r = rng.random()
    if depth <= 0 or r < 0.45:
        r2 = rng.random()
        if r2 < 0.62:
            return ["cmp", rng.choice(list(CMP)), gen_e(rng, cols, 1), gen_e(rng, cols, 1)]
        if r2 < 0.72 and leaf_lits:
            return ["plit", rng.random() < 0.5]
        if r2 < 0.88:
            return ["inrange", gen_e(rng, cols, 1), gen_range(rng, wild_ranges), rng.choice(["factory", "factory", "ctor"])]
        if LONG_SEQ and rng.random() < LONG_SEQ:
            # scale: a long all-literal sequence (an IN list with dozens of bind parameters)
            # (all items but the last three lie outside the data, so the last ones decide)
            size = rng.choice([20, 45, 120, 20, 45, 120, 20, 45, 120, 20, 45, 1013])
            items = [["lit", 1000 + i] for i in range(size - 3)] + [["lit", rng.randint(-3, 3)] for _ in range(3)]
        elif rng.random() < 0.35:
            items = [["lit", gen_lit(rng, -3, 3)] for _ in range(rng.randint(0, 3))]  # all-literal sequence
        else:
            items = [gen_e(rng, cols, 1) for _ in range(rng.randint(0, 3))]
        return ["inseq", gen_e(rng, cols, 1), items, rng.choice(["list", "tuple"])]
    if r < 0.6:
        return ["not", gen_p(rng, cols, depth - 1, wild_ranges, leaf_lits)]
    k = "and" if r < 0.82 else "or"
    return [
        k,
        [gen_p(rng, cols, depth - 1, wild_ranges, leaf_lits) for _ in range(rng.randint(0, 3))],
        rng.choice(["ctor", "factory"]),
    ]


def show_e(e) -> str:
    k = e[0]
    if k == "ref":
        return e[1]
    if k == "lit":
        return str(e[1])
    if k == "neg":
        return f"-({show_e(e[1])})"
    if k == "rfn":
        return f"{e[1]}@{'/'.join(e[3])}({', '.join(show_e(a) for a in e[2])})"
    return f"({show_e(e[1])}{ {'add': '+', 'sub': '-', 'mul': '*', 'fdiv': '//'}[k] }{show_e(e[2])})"


def show_p(p) -> str:
    k = p[0]
    if k in ("cmp", "rcmp"):
        return f"{show_e(p[2])} {p[1]} {show_e(p[3])}"
    if k in ("and", "or"):
        return f"{k}[{', '.join(show_p(q) for q in p[1])}]"
    if k == "not":
        return f"not({show_p(p[1])})"
    if k == "plit":
        return str(p[1])
    if k == "inrange":
        return f"{show_e(p[1])} in range{tuple(p[2])}"
    if k == "inseq":
        return f"{show_e(p[1])} in [{', '.join(show_e(x) for x in p[2])}]"
    return str(p)
