"""M-backtrack: records the outcome of every outermost ``Engine.backtrack_unary`` call."""
from __future__ import annotations

from .. import bootstrap
from . import hooks

bootstrap.ensure()

import lsst.daf.relation as R  # noqa: E402
from lsst.daf.relation import iteration  # noqa: E402

EVENTS: list = []  # dicts: operation, tree, preferred, result, done, messages
_depth = [0]


def install():
    if not hooks.enabled():
        return

    def make(orig):
        def backtrack_unary(self, operation, tree, preferred):
            _depth[0] += 1
            try:
                res = orig(self, operation, tree, preferred)
            finally:
                _depth[0] -= 1
            if _depth[0] == 0:
                EVENTS.append({"operation": operation, "tree": tree, "preferred": preferred, "result": res[0], "done": res[1], "messages": res[2]})
            return res

        return backtrack_unary

    hooks.wrap_method(R.Engine, "backtrack_unary", make, key="bt")
    hooks.wrap_method(iteration.Engine, "backtrack_unary", make, key="bt")


def drain():
    ev = list(EVENTS)
    EVENTS.clear()
    return ev
