"""M-simplify: oracle for operation merging / elision (property C05).

* ``check_finish_apply`` decides one ``op._finish_apply(target) -> result`` event:
  the returned tree must evaluate (independent interpreter) to ``op`` applied to
  the rows of ``target`` - exact list equality.
* ``check_simplify`` decides one ``down.simplify(up) -> S`` event on witness rows.
* icontract postconditions on ``Slice.then`` / ``Sort.then`` (window arithmetic
  for every length 0..12; term-list law) run on every call the library makes.
"""
from __future__ import annotations

from .. import bootstrap, interp
from . import hooks

bootstrap.ensure()

import lsst.daf.relation as R  # noqa: E402

VIOLATIONS: list = []
COUNTERS: dict = {}
_provider = {"leaf_rows": None}


class SliceThenBroken(AssertionError):
    pass


class SortThenBroken(AssertionError):
    pass


def set_leaf_rows(fn):
    _provider["leaf_rows"] = fn


def bump(k, n=1):
    COUNTERS[k] = COUNTERS.get(k, 0) + n


def slice_then_composes(self, next, result) -> bool:  # noqa: A002 - name must match the parameter
    bump("slice_then_contract_evaluations")
    for n in range(13):
        base = list(range(n))
        if base[self.start : self.stop][next.start : next.stop] != base[result.start : result.stop]:
            return False
    return True


def sort_then_law(self, next, result) -> bool:  # noqa: A002
    """next's terms first (they win), then self's terms that are not repeated."""
    bump("sort_then_contract_evaluations")
    terms = list(result.terms)
    if terms[: len(next.terms)] != list(next.terms):
        return False
    rest = terms[len(next.terms) :]
    return all(t in self.terms for t in rest) and all(t in terms for t in self.terms)


def check_finish_apply(op, target, result, leaf_rows):
    v = []
    what = f"{type(op).__name__}._finish_apply"
    try:
        rows_t, cols_t = interp.eval_tree(target, leaf_rows)
    except (interp.Unsupported, interp.IllFormed, KeyError, ArithmeticError, TypeError):
        bump("target_unevaluable")
        return v
    try:
        want, wcols = interp.apply_unary(op, rows_t, cols_t, leaf_rows)
    except interp.IllFormed:
        bump("finish_apply_on_illformed_target")
        return v
    except interp.Unsupported:
        bump("unsupported_operation")
        return v
    except (ArithmeticError, TypeError):
        bump("original_sequence_raises")
        return v
    try:
        got, gcols = interp.eval_tree(result, leaf_rows)
    except (ArithmeticError, TypeError) as e:
        v.append({"kind": "merged_tree_evaluation_raises", "detail": f"{what}: op={op} target={target} result={result}: {type(e).__name__}: {e} (the operation applied to the target evaluates fine)"})
        return v
    except interp.IllFormed as e:
        v.append({"kind": "result_tree_illformed", "detail": f"{what}: op={op} target={target} result={result}: {e}"})
        return v
    except (interp.Unsupported, KeyError):
        bump("result_unevaluable")
        return v
    bump("finish_apply_events_checked")
    if result is target:
        bump("elided")
    elif isinstance(result, R.UnaryOperationRelation) and result.operation is op and result.target is target:
        bump("plain_node")
    else:
        bump("merged_or_rewritten")
    if gcols != wcols:
        v.append({"kind": "merge_changes_columns", "detail": f"{what}: op={op} target={target} result={result}: {sorted(map(str, gcols))} vs {sorted(map(str, wcols))}"})
    elif (interp.canon(got) != interp.canon(want)) if isinstance(op, R.PartialJoin) else (got != want):
        v.append({"kind": "merge_changes_rows", "detail": f"{what}: op={op} target={target} result={result}: got {interp.named(got)} want {interp.named(want)}"})
    return v


def check_simplify(down, up, simplified, witnesses):
    """witnesses: list of (rows, columns) on which ``up`` then ``down`` are well-formed."""
    v = []
    if simplified is None:
        bump("simplify_none")
        return v
    bump("simplify_merged")
    for rows, cols in witnesses:
        try:
            r1, c1 = interp.apply_unary(up, rows, cols)
            want, wc = interp.apply_unary(down, r1, c1)
        except (interp.IllFormed, interp.Unsupported):
            continue
        try:
            got, gc = interp.apply_unary(simplified, rows, cols)
        except interp.IllFormed as e:
            v.append({"kind": "simplified_illformed", "detail": f"{down}.simplify({up}) -> {simplified}: {e}"})
            return v
        bump("simplify_witnesses_evaluated")
        if gc != wc or got != want:
            v.append({"kind": "simplify_changes_rows", "detail": f"{down}.simplify({up}) -> {simplified}: on {interp.named(rows)} got {interp.named(got)} want {interp.named(want)}"})
            return v
    return v


def install(contracts: bool = True):
    if not hooks.enabled():
        return

    def make_finish(orig):
        def _finish_apply(self, target):
            result = orig(self, target)
            if _provider["leaf_rows"] is not None:
                try:
                    VIOLATIONS.extend(check_finish_apply(self, target, result, _provider["leaf_rows"]))
                except Exception as exc:  # noqa: BLE001
                    bump("monitor_errors")
                    VIOLATIONS.append({"kind": "MONITOR-ERROR", "detail": repr(exc)})
            return result

        return _finish_apply

    for cls in (R.UnaryOperation, R.Identity, R.Projection, R.Selection, R.Slice, R.Sort, R.PartialJoin):
        if "_finish_apply" in cls.__dict__:
            hooks.wrap_method(cls, "_finish_apply", make_finish, key="finish")

    if contracts:
        try:
            import icontract

            def deco_slice(orig):
                return icontract.ensure(slice_then_composes, error=lambda self, next, result: SliceThenBroken(f"{self}.then({next}) -> {result}"))(orig)

            def deco_sort(orig):
                return icontract.ensure(sort_then_law, error=lambda self, next, result: SortThenBroken(f"{self}.then({next}) -> {result}"))(orig)

            hooks.wrap_method(R.Slice, "then", deco_slice, key="contract")
            hooks.wrap_method(R.Sort, "then", deco_sort, key="contract")
            bump("icontract_contracts_installed", 2)
        except ImportError:
            def plain(cond, err):
                def make(orig):
                    def then(self, next):  # noqa: A002
                        result = orig(self, next)
                        if not cond(self, next, result):
                            raise err(f"{self}.then({next}) -> {result}")
                        return result
                    return then
                return make

            hooks.wrap_method(R.Slice, "then", plain(slice_then_composes, SliceThenBroken), key="contract")
            hooks.wrap_method(R.Sort, "then", plain(sort_then_law, SortThenBroken), key="contract")
            bump("plain_contracts_installed", 2)


def drain():
    vi = list(VIOLATIONS)
    VIOLATIONS.clear()
    return vi
