"""M-payload: write-once contract on ``attach_payload`` (icontract when available)
and a shadow map of payload identities swept at quiescent points (property C10)."""
from __future__ import annotations

from .. import bootstrap, interp
from . import hooks

bootstrap.ensure()

import lsst.daf.relation as R  # noqa: E402

COUNTERS: dict = {}
VIOLATIONS: list = []


class PayloadContractBroken(AssertionError):
    pass


def bump(k, n=1):
    COUNTERS[k] = COUNTERS.get(k, 0) + n


def old_payload(self):
    return self.payload


def attached_only_to_empty_marker(self, payload, OLD) -> bool:
    """Postcondition of a *returning* attach_payload: there was no payload before
    and the relation now holds exactly the argument."""
    bump("attach_contract_evaluations")
    return OLD.before is None and self.payload is payload and isinstance(self, R.MarkerRelation)


def contract_error(self, payload, OLD):
    return PayloadContractBroken(f"attach_payload({type(payload).__name__}) returned on {type(self).__name__} whose payload was {'set' if OLD.before is not None else 'None'}; now {'the argument' if self.payload is payload else 'something else'}")


def install():
    if not hooks.enabled():
        return
    try:
        import icontract

        def deco(orig):
            return icontract.snapshot(old_payload, name="before")(icontract.ensure(attached_only_to_empty_marker, error=contract_error)(orig))

        bump("icontract_contracts_installed", 2)
    except ImportError:
        def deco(orig):
            def attach_payload(self, payload):
                class OLD:
                    before = self.payload
                res = orig(self, payload)
                if not attached_only_to_empty_marker(self, payload, OLD):
                    raise contract_error(self, payload, OLD)
                return res
            return attach_payload
        bump("plain_contracts_installed", 2)
    hooks.wrap_method(R.MarkerRelation, "attach_payload", deco, key="payload")
    hooks.wrap_method(R.BaseRelation, "attach_payload", deco, key="payload")


class Shadow:
    """Shadow map node -> payload identity; ``sweep`` reports any payload that was
    replaced or cleared since the previous sweep."""

    def __init__(self):
        self.seen: dict = {}

    def sweep(self, relations, when):
        out = []
        for rel in relations:
            for n in interp.walk(rel):
                cur = n.payload
                old = self.seen.get(id(n))
                if old is not None and old[0] is n and old[1] is not None and cur is not old[1]:
                    out.append({"kind": "payload_replaced_or_cleared", "detail": f"{type(n).__name__} {str(n)[:120]}: payload changed from a non-None value {when}"})
                self.seen[id(n)] = (n, cur)
        bump("shadow_sweeps")
        return out
