"""M-structure / M-select: node-local structural invariants of relation trees
(properties C14, C17, the refusal clause of C11 and the locked-node clause of C15)."""
from __future__ import annotations

from .. import bootstrap, interp

bootstrap.ensure()

import lsst.daf.relation as R  # noqa: E402
from lsst.daf.relation import sql as Rsql  # noqa: E402
from lsst.daf.relation._binary_operation import IgnoreOne  # noqa: E402

from ..common import short  # noqa: E402

MANAGED = (R.Sort, R.Projection, R.Deduplication, R.Slice)


def exprs_of(op):
    """Column expressions / predicates held by an operation."""
    if isinstance(op, R.Calculation):
        return [op.expression]
    if isinstance(op, R.Selection):
        return [op.predicate]
    if isinstance(op, R.Sort):
        return [t.expression for t in op.terms]
    if isinstance(op, R.Join):
        return [op.predicate]
    if isinstance(op, R.PartialJoin):
        return [op.binary.predicate]
    return []


def check_c14(root, counters=None):
    """Return a list of (kind, detail) for every node-local violation in the tree."""
    errs = []
    n = 0
    for r in interp.walk(root):
        n += 1
        if isinstance(r, R.UnaryOperationRelation):
            if r.engine is not r.target.engine:
                errs.append(("unary_engine_differs_from_operand", short(r)))
            if isinstance(r.operation, (R.Identity, R.PartialJoin)):
                errs.append(("placeholder_operation_as_node", short(r)))
            for e in exprs_of(r.operation):
                if not interp.supported_by(e, r.engine):
                    errs.append(("expression_not_supported_by_node_engine", f"{e} in {short(r)} engine {r.engine}"))
        elif isinstance(r, R.BinaryOperationRelation):
            if r.lhs.engine is not r.rhs.engine:
                errs.append(("binary_operands_in_different_engines", short(r)))
            if isinstance(r.operation, IgnoreOne):
                errs.append(("placeholder_operation_as_node", short(r)))
            if isinstance(r.operation, R.Join):
                try:
                    cc = r.operation.common_columns
                except R.ColumnError:
                    errs.append(("join_common_columns_unresolved", short(r)))
                else:
                    if not (cc <= r.lhs.columns and cc <= r.rhs.columns):
                        errs.append(("join_common_columns_missing_from_operand", short(r)))
                    if not all(t.is_key for t in cc):
                        errs.append(("join_common_column_not_key", short(r)))
                if not interp.supported_by(r.operation.predicate, r.engine):
                    errs.append(("expression_not_supported_by_node_engine", f"{r.operation.predicate} in {short(r)}"))
        elif isinstance(r, R.Transfer):
            if r.target.engine is r.destination:
                errs.append(("transfer_connects_engine_to_itself", short(r)))
        elif isinstance(r, R.MarkerRelation):
            if r.engine is not r.target.engine:
                errs.append(("engine_changes_at_non_transfer_marker", short(r)))
            if isinstance(r, Rsql.Select) and not isinstance(r.engine, Rsql.Engine):
                # the SQL engine's own marker on a relation that lives in another engine
                errs.append(("sql_select_marker_in_foreign_engine", short(r)))
    if counters is not None:
        counters["c14_nodes_walked"] = counters.get("c14_nodes_walked", 0) + n
    return errs


def wellformed_columns(root):
    """Operation requirements vs operand columns (used by C04/C05/C20 style checks)."""
    errs = []
    for r in interp.walk(root):
        if isinstance(r, R.UnaryOperationRelation):
            if not set(r.operation.columns_required) <= set(r.target.columns):
                errs.append(("operation_requires_missing_columns", short(r)))
            if isinstance(r.operation, R.Calculation) and r.operation.tag in r.target.columns:
                errs.append(("calculated_tag_already_present", short(r)))
        elif isinstance(r, R.BinaryOperationRelation):
            if isinstance(r.operation, R.Chain) and set(r.lhs.columns) != set(r.rhs.columns):
                errs.append(("chain_operand_columns_differ", short(r)))
            if isinstance(r.operation, R.Join) and not set(r.operation.predicate.columns_required) <= set(r.columns):
                errs.append(("join_predicate_requires_missing_columns", short(r)))
    return errs


def check_select(sel):
    """Coherence of one Select marker (C17)."""
    errs = []
    node = sel.target
    ops = []
    steps = 0
    while node is not sel.skip_to:
        steps += 1
        if not isinstance(node, R.UnaryOperationRelation) or steps > 8:
            errs.append(("skip_target_not_reached_through_unary_nodes", short(sel)))
            return errs
        ops.append(node.operation)
        node = node.target
    expected = []
    if sel.has_slice:
        expected.append(sel.slice)
    if sel.deduplication is not None:
        expected.append(sel.deduplication)
    if sel.projection is not None:
        expected.append(sel.projection)
    if sel.has_sort:
        expected.append(sel.sort)
    if ops != expected:
        # a recorded operation that does nothing may be absent
        relaxed = [o for o in expected if not (o is sel.projection and o not in ops and set(sel.projection.columns) == set(sel.skip_to.columns))]
        if ops != relaxed:
            errs.append(("nodes_between_marker_and_skip_target_differ_from_recorded_slots", f"{short(sel)}: nodes {[str(o) for o in ops]} recorded {[str(o) for o in expected]}"))
    is_chain = isinstance(sel.skip_to, R.BinaryOperationRelation) and isinstance(sel.skip_to.operation, R.Chain)
    if sel.is_compound != is_chain:
        errs.append(("compound_flag_disagrees_with_skip_target", short(sel)))
    if isinstance(sel.skip_to, R.UnaryOperationRelation) and isinstance(sel.skip_to.operation, MANAGED):
        errs.append(("managed_operation_at_skip_target", short(sel)))
    return errs


def check_c17_tree(root, engine, counters=None):
    errs = []
    n = 0
    for r in interp.walk(root):
        if isinstance(r, Rsql.Select) and r.engine is engine:
            n += 1
            errs.extend(check_select(r))
    if counters is not None:
        counters["select_markers_checked"] = counters.get("select_markers_checked", 0) + n
    return errs


def effectively_sorted_without_slice(rel) -> bool:
    """A Select that carries a sort and no slice, possibly wrapped in Selects that apply no
    operation of their own (target is skip_to)."""
    while isinstance(rel, Rsql.Select):
        if rel.has_slice:
            return False
        if rel.has_sort:
            return True
        if rel.target is not rel.skip_to:
            return False
        rel = rel.skip_to
    return False


def buried_sorts(root):
    """C11 refusal clause: a sort without slice as operand of a join/chain or target of a materialization."""
    errs = []
    for r in interp.walk(root):
        if not isinstance(r.engine, Rsql.Engine):
            continue
        if isinstance(r, R.BinaryOperationRelation) and isinstance(r.operation, (R.Join, R.Chain)):
            for side in (r.lhs, r.rhs):
                if effectively_sorted_without_slice(side):
                    errs.append(("sort_without_slice_buried_under_binary_operation", f"{short(side)} under {short(r)}"))
        elif isinstance(r, R.Materialization):
            if effectively_sorted_without_slice(r.target):
                errs.append(("sort_without_slice_buried_under_materialization", short(r)))
    return errs


def locked_nodes(rel):
    """(type, name) -> node for every locked leaf / materialization in a tree."""
    out = {}
    for n in interp.walk(rel):
        if isinstance(n, (R.LeafRelation, R.Materialization)):
            out.setdefault((type(n).__name__, n.name), []).append(n)
    return out


def check_locked_identity(inputs, result):
    """C15: every locked node of an input tree that reappears (same type and name) in the
    result must be the identical object."""
    errs = []
    before = {}
    for rel in inputs:
        for k, nodes in locked_nodes(rel).items():
            before.setdefault(k, []).extend(nodes)
    for k, nodes in locked_nodes(result).items():
        if k in before:
            olds = before[k]
            for n in nodes:
                if not any(n is o for o in olds):
                    errs.append(("locked_node_rewritten", f"{k}: {short(n)} is a copy of a locked input node"))
    return errs
