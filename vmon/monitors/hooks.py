"""Installation of harness-side hooks (no edits to the repository).

Hooks are installed only when ``DAF_RELATION_VMON=1`` (set by ./vcheck and by
the CLI for its workers).  Every hook is a wrapper placed on a class attribute
of the real library class, so internal calls go through it.
"""
from __future__ import annotations

import functools
import os

_installed: dict = {}


def enabled() -> bool:
    return os.environ.get("DAF_RELATION_VMON") == "1"


def require():
    """Checks whose verdict depends on hooks must not run with monitors disabled."""
    if not enabled():
        raise RuntimeError("monitors disabled: DAF_RELATION_VMON=1 is required (run through ./vcheck)")


def wrap_method(cls, name, make_wrapper, key=None):
    """Replace ``cls.name`` (which must be defined on ``cls`` itself or inherited)
    by ``make_wrapper(original)``; idempotent per (cls, name, key)."""
    k = (cls, name, key)
    if k in _installed:
        return
    orig = cls.__dict__.get(name)
    kind = None
    if isinstance(orig, classmethod):
        kind, func = "class", orig.__func__
    elif isinstance(orig, staticmethod):
        kind, func = "static", orig.__func__
    elif orig is None:
        func = getattr(cls, name)
    else:
        func = orig
    wrapper = functools.wraps(func)(make_wrapper(func))
    if kind == "class":
        wrapper = classmethod(wrapper)
    elif kind == "static":
        wrapper = staticmethod(wrapper)
    setattr(cls, name, wrapper)
    _installed[k] = (orig, func)


def uninstall_all():
    for (cls, name, _), (orig, func) in list(_installed.items()):
        if orig is None:
            try:
                delattr(cls, name)
            except AttributeError:
                pass
        else:
            setattr(cls, name, orig)
    _installed.clear()
