"""M-commute: oracle for `UnaryOperation.commute` results (property C04).

``check_commute`` decides one (new operation, current relation, commutator)
event on concrete target rows using the independent interpreter.  ``install``
hooks every ``commute`` override so that the same oracle also sees each call the
library makes internally (e.g. from ``backtrack_unary``)."""
from __future__ import annotations

from .. import bootstrap, interp
from . import hooks

bootstrap.ensure()

import lsst.daf.relation as R  # noqa: E402

EVENTS: list = []  # (new_op, current, commutator) of calls seen by the hook
VIOLATIONS: list = []
COUNTERS: dict = {}
_provider = {"leaf_rows": None}


def set_leaf_rows(fn):
    _provider["leaf_rows"] = fn


def bump(k, n=1):
    COUNTERS[k] = COUNTERS.get(k, 0) + n


def witness_variants(rows):
    if 1 < len(rows) <= 4:
        # small targets: every row order (commutators assume order preservation), plus duplicates
        import itertools

        out = [list(p) for p in itertools.permutations(rows)]
        out.append(rows + rows[: max(1, len(rows) // 2)])
        out.append(rows[:1])
        out.append([])
        return out
    out = [rows]
    if len(rows) > 1:
        out.append(list(reversed(rows)))
        out.append(rows[1:] + rows[:1])
    if rows:
        out.append(rows + rows[: max(1, len(rows) // 2)])
        out.append(rows[:1])
    out.append([])
    return out


def classify(new_op, current):
    if isinstance(new_op, R.Projection) and isinstance(current.operation, R.Deduplication):
        return "KF-proj-dedup"
    return None


def check_commute(new_op, current, c, leaf_rows, base_rows=None, single_witness=False):
    """Return a list of violation dicts for one commute() result.

    ``single_witness``: judge the report on the target's actual rows only.  For a target that is a
    tree, a report may legitimately rest on what is known about it (it is sorted, deduplicated, ...),
    which permuted or duplicated witness rows would contradict."""
    v = []
    pair = f"{type(new_op).__name__}.commute(current={type(current.operation).__name__})"
    tcols = frozenset(current.target.columns)

    def viol(kind, detail):
        v.append({"kind": kind, "mech": classify(new_op, current), "detail": f"{pair}: new={new_op} current={current} -> first={c.first} second={c.second} done={c.done}: {detail}"})

    if c.first is None and not c.done:
        bump("refused")
        if c.second is not current.operation and c.second != current.operation:
            viol("refusal_changed_operation", "no move reported but second is not the existing operation")
        return v
    # first=None with done=True is documented as "the original operation simplifies away
    # entirely": the commuted sequence is ``second`` alone and has to equal existing-then-new
    bump(("dropped_entirely" if c.first is None else "full") if c.done else "partial")
    if base_rows is None:
        try:
            base_rows, _ = interp.eval_tree(current.target, leaf_rows)
        except (interp.Unsupported, interp.IllFormed, KeyError):
            bump("target_unevaluable")
            return v
    for rows in ([list(base_rows)] if single_witness else witness_variants(base_rows)):
        try:
            r1, cols1 = interp.apply_unary(current.operation, rows, tcols, leaf_rows)
            want, wcols = interp.apply_unary(new_op, r1, cols1, leaf_rows)
        except interp.IllFormed:
            bump("original_sequence_illformed")
            return v
        except interp.Unsupported:
            bump("unsupported_operation")
            return v
        try:
            g, gcols = (list(rows), tcols) if c.first is None else interp.apply_unary(c.first, rows, tcols, leaf_rows)
        except interp.IllFormed as e:
            viol("first_illformed", str(e))
            return v
        try:
            g, gcols = interp.apply_unary(c.second, g, gcols, leaf_rows)
        except interp.IllFormed as e:
            viol("second_illformed", str(e))
            return v
        if not c.done:
            try:
                g, gcols = interp.apply_unary(new_op, g, gcols, leaf_rows)
            except interp.IllFormed as e:
                viol("remainder_illformed", str(e))
                return v
        bump("witness_targets_evaluated")
        if gcols != wcols:
            viol("columns_differ", f"{sorted(map(str, gcols))} vs {sorted(map(str, wcols))}")
            return v
        if isinstance(new_op, R.PartialJoin):
            # row order of a join is engine-defined; compare as multisets
            same = interp.canon(g) == interp.canon(want)
        else:
            same = g == want
        if not same:
            viol("rows_differ", f"on target {interp.named(rows)}: commuted {interp.named(g)} original {interp.named(want)}")
            return v
    return v


def install():
    if not hooks.enabled():
        return

    def make(orig):
        def commute(self, current):
            result = orig(self, current)
            bump("commute_calls_seen")
            EVENTS.append((self, current, result))
            if _provider["leaf_rows"] is not None:
                try:
                    VIOLATIONS.extend(check_commute(self, current, result, _provider["leaf_rows"]))
                except Exception as exc:  # noqa: BLE001 - monitor must never break the workload
                    bump("monitor_errors")
                    VIOLATIONS.append({"kind": "MONITOR-ERROR", "detail": repr(exc)})
            return result

        return commute

    # every class in the UnaryOperation hierarchy that defines its own commute() - found by walking
    # the subclasses, so that an override added to an extension base class (RowFilter, Reordering)
    # is seen as well
    seen, todo = [], [R.UnaryOperation]
    while todo:
        cls = todo.pop()
        if cls in seen:
            continue
        seen.append(cls)
        todo.extend(cls.__subclasses__())
    for cls in seen:
        if "commute" in cls.__dict__:
            hooks.wrap_method(cls, "commute", make, key="commute")


def drain():
    ev, vi = list(EVENTS), list(VIOLATIONS)
    EVENTS.clear()
    VIOLATIONS.clear()
    return ev, vi
