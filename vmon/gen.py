"""Seeded generators of leaves and well-typed programs (see model.py for the AST)."""
from __future__ import annotations

import dataclasses

from .exprs import ecols, gen_e, gen_p, pcols, reflavour
from .tags import KEYS, is_key


@dataclasses.dataclass
class Cfg:
    engines: tuple = ("it",)  # engines the tree may live in; first is the start engine of leaves by default
    ops: tuple = ("calc", "proj", "sel", "dedup", "sort", "slice", "chain", "mat")
    weights: dict = dataclasses.field(default_factory=dict)
    max_depth: int = 2
    max_unary: int = 4
    nonkeys: bool = True
    special_leaves: bool = True
    loose_bounds: bool = True
    raw_leaves: bool = True
    wild_ranges: bool = True
    xfer_prob: float = 0.0
    join_pred_prob: float = 0.4
    total_sort_prob: float = 0.7
    value_range: tuple = (-2, 3)
    provenance: bool = False
    leaf_cols: str = "abcd"
    max_rows_choices: tuple = (0, 1, 2, 3, 5, 8)
    shuffle_insert: bool = True
    sort_then_slice_prob: float = 0.0
    twin_leaf_prob: float = 0.12
    mapping_payloads: bool = True
    max_expanded_nodes: int = 60  # size of the program with shared operands written out
    big_leaf_prob: float = 0.01  # probability that a leaf has 40-130 rows over a wider value range
    tall_prob: float = 0.05  # probability that a level stacks 5-9 unary operations instead of 0..max_unary
    wide_prob: float = 0.1  # probability that a binary operation is immediately followed by another one (3-way)
    lookalike_prob: float = 0.0  # probability that a calculation / selection reuses an earlier expression of the case with its literals re-typed
    flavour_prob: float = 0.0  # probability that a case mixes int / float / bool representations of equal numbers


class Gen:
    def __init__(self, rng, cfg: Cfg):
        self.rng = rng
        self.cfg = cfg
        self.leaves: dict = {}
        self.nmat = 0
        self._sizes: dict = {}
        self.seen_e: list = []
        self.seen_p: list = []

    # ------------------------------------------------------------ leaves
    def leaf(self, engine, want_cols=None, allow_special=True):
        rng, cfg = self.rng, self.cfg
        name = f"L{len(self.leaves) + 1}"
        idx = len(self.leaves) + 1
        if allow_special and cfg.special_leaves and want_cols is None and rng.random() < 0.06:
            self.leaves[name] = {"engine": engine, "cols": [], "rows": [[]], "kind": "identity"}
            return ["leaf", name], frozenset(), engine
        twins = [n for n, sp in self.leaves.items() if sp["engine"] == engine and sp.get("kind") == "normal" and "table_of" not in sp]
        if want_cols is None and engine.startswith("sql") and twins and rng.random() < cfg.twin_leaf_prob:
            orig = rng.choice(twins)
            spec = dict(self.leaves[orig])
            spec["table_of"] = orig  # separate LeafRelation and Payload over the same database table
            spec.pop("ins_seed", None)
            self.leaves[name] = spec
            return ["leaf", name], frozenset(spec["cols"]), engine
        if want_cols is None:
            cols = rng.sample(cfg.leaf_cols, rng.randint(0, min(3, len(cfg.leaf_cols))))
            if cfg.nonkeys and cols and rng.random() < 0.3:
                cols.append(rng.choice("xy"))
        else:
            cols = sorted(want_cols)
            extra = [c for c in cfg.leaf_cols if c not in cols]
            if extra and rng.random() < 0.3:
                cols.append(rng.choice(extra))
        cols = sorted(set(cols))
        if allow_special and cfg.special_leaves and rng.random() < 0.06:
            self.leaves[name] = {"engine": engine, "cols": cols, "rows": [], "kind": "doomed"}
            return ["leaf", name], frozenset(cols), engine
        n = rng.choice(cfg.max_rows_choices)
        lo, hi = cfg.value_range
        if cfg.big_leaf_prob and rng.random() < cfg.big_leaf_prob:
            # scale: code that changes its behaviour with the number of rows (batching, thresholds,
            # bind-parameter limits) never shows on a dozen rows
            n = rng.choice([40, 70, 130])
            lo, hi = lo - 12, hi + 12
        keycols = [c for c in cols if is_key(c)]
        fd_ok = rng.random() < 0.9
        rows = []
        for _ in range(n):
            row = {}
            for c in keycols:
                v = rng.randint(lo, hi)
                if cfg.provenance and c not in "ab":
                    v = v * 7 + idx  # value identifies the leaf it came from
                row[c] = v
            for c in cols:
                if not is_key(c):
                    if fd_ok and keycols:
                        row[c] = (sum(row[k] for k in keycols) * 3 + ord(c) + idx) % 5
                    else:
                        row[c] = rng.randint(lo, hi)
            rows.append([row[c] for c in cols])
        if rows and rng.random() < 0.4:
            rows += [list(rng.choice(rows)) for _ in range(rng.randint(1, 3))]
            rng.shuffle(rows)
        spec = {"engine": engine, "cols": cols, "rows": rows, "kind": "normal"}
        n = len(rows)
        if cfg.loose_bounds:
            b = rng.random()
            if b < 0.5:
                spec["min"], spec["max"] = n, n
            elif b < 0.8:
                spec["min"], spec["max"] = max(0, n - rng.randint(0, 2)), n + rng.randint(0, 2)
            else:
                spec["min"], spec["max"] = 0, None
            if cfg.raw_leaves and rng.random() < 0.5:
                spec["ctor"] = "raw"
        else:
            spec["min"], spec["max"] = n, n
        if cfg.shuffle_insert and rng.random() < 0.5:
            spec["ins_seed"] = rng.randint(0, 10**6)
        if cfg.mapping_payloads and not engine.startswith("sql") and keycols and rng.random() < 0.2:
            # iteration payload held as a RowMapping keyed on (a permutation of) the key columns,
            # which lets Deduplication return the payload itself
            seen = set()
            uniq = []
            for r in rows:
                k = tuple(r[cols.index(c)] for c in keycols)
                if k not in seen:
                    seen.add(k)
                    uniq.append(r)
            spec["rows"] = uniq
            key = list(keycols)
            if rng.random() < 0.5:
                rng.shuffle(key)
            spec["mapping_key"] = key
            n = len(uniq)
            spec["min"], spec["max"] = n, n
        elif cfg.mapping_payloads and not engine.startswith("sql") and rng.random() < 0.08:
            spec["lazy_chain"] = rng.randint(0, len(rows))
        self.leaves[name] = spec
        return ["leaf", name], frozenset(cols), engine

    # ------------------------------------------------------------ pieces
    def sort_terms(self, cols, total=None):
        rng = self.rng
        cols = sorted(cols)
        if total is None:
            total = rng.random() < self.cfg.total_sort_prob
        if total and cols:
            cl = list(cols)
            rng.shuffle(cl)
            return [[["ref", c], rng.random() < 0.5] for c in cl]
        if not cols:
            return []
        terms = [[gen_e(rng, cols, 1, need_col=True), rng.random() < 0.5] for _ in range(rng.randint(0, 3))]
        if terms and rng.random() < 0.25:
            # repeated / opposite-direction terms
            e, asc = rng.choice(terms)
            terms.append([e, not asc if rng.random() < 0.5 else asc])
        return terms

    def slice_args(self):
        rng = self.rng
        start = rng.choice([0, 0, 0, 1, 2, 4])
        stop = rng.choice([None, start, start + 1, start + 2, start + 3, 9])
        return start, stop

    def pick_op(self, ops):
        w = [self.cfg.weights.get(o, 1.0) for o in ops]
        return self.rng.choices(ops, weights=w)[0]

    # ------------------------------------------------------------ trees
    def unary(self, state, op):
        """Apply one unary op to state; returns new state or None if not applicable."""
        rng = self.rng
        prog, cols, eng = state
        if op == "calc":
            free = [c for c in KEYS if c not in cols]
            if not cols or not free:
                return None
            tag = rng.choice(free)
            e = gen_e(rng, cols, 2, need_col=True)
            if self.cfg.lookalike_prob:
                cand = [x for x in self.seen_e if ecols(x) <= cols]
                if cand and rng.random() < self.cfg.lookalike_prob:
                    e = reflavour(rng.choice(cand), rng)
                self.seen_e.append(e)
            if not ecols(e):
                return None
            return ["calc", prog, tag, e, None], cols | {tag}, eng
        if op == "proj":
            r = rng.random()
            if r < 0.1:
                keep = set(cols)
            elif r < 0.17:
                keep = set()
            else:
                keep = {c for c in cols if rng.random() < 0.6}
            return ["proj", prog, sorted(keep), None], frozenset(keep), eng
        if op == "sel":
            p = gen_p(rng, cols, 2, wild_ranges=self.cfg.wild_ranges)
            if self.cfg.lookalike_prob:
                cand = [x for x in self.seen_p if pcols(x) <= cols]
                if cand and rng.random() < self.cfg.lookalike_prob:
                    p = reflavour(rng.choice(cand), rng)
                self.seen_p.append(p)
            return ["sel", prog, p, None], cols, eng
        if op == "dedup":
            return ["dedup", prog, None], cols, eng
        if op == "sort":
            return ["sort", prog, self.sort_terms(cols), None], cols, eng
        if op == "slice":
            start, stop = self.slice_args()
            return ["slice", prog, start, stop], cols, eng
        if op == "mat":
            self.nmat += 1
            return ["mat", prog, f"M{self.nmat}"], cols, eng
        if op == "alt":
            if not eng.startswith("it"):
                return None
            return ["alt", prog], cols, eng
        if op in ("cap", "rev"):
            # user-defined RowFilter / Reordering (extension points); only an engine subclass that
            # implements apply_custom_unary_operation can run them: the iteration engines here
            if not eng.startswith("it"):
                return None
            return (["cap", prog, rng.choice([0, 1, 2, 3, 5])] if op == "cap" else ["rev", prog]), cols, eng
        if op == "mark":
            # a user-defined marker relation (extension point); SQL conform() drops such markers
            if not eng.startswith("it"):
                return None
            return ["mark", prog, rng.choice(["tag", "note"])], cols, eng
        if op == "xfer":
            others = [e for e in self.cfg.engines if e != eng]
            if not others:
                return None
            dest = rng.choice(others)
            return ["xfer", prog, dest], cols, dest
        raise AssertionError(op)

    def tree(self, depth=None, engine=None, want_cols=None):
        rng, cfg = self.rng, self.cfg
        if depth is None:
            depth = cfg.max_depth
        if engine is None:
            engine = rng.choice(cfg.engines) if cfg.xfer_prob else cfg.engines[0]
        if depth <= 0 or rng.random() < 0.3:
            state = self.leaf(engine, want_cols)
        else:
            state = self.tree(depth - 1, engine, want_cols)
        n_unary = rng.randint(0, cfg.max_unary)
        if cfg.tall_prob and rng.random() < cfg.tall_prob:
            n_unary = rng.randint(5, 9)
        for _ in range(n_unary):
            if cfg.xfer_prob and rng.random() < cfg.xfer_prob:
                new = self.unary(state, "xfer")
                if new:
                    state = new
                continue
            op = self.pick_op(cfg.ops)
            if op == "join" and not state[2].startswith("sql"):
                continue  # the iteration engine documents joins as unsupported
            if op in ("chain", "join"):
                if depth <= 0:
                    continue
                new = self.binary(state, op, depth)
                if new and cfg.wide_prob and rng.random() < cfg.wide_prob:
                    # three-way chain / join (or a chain of a join, ...) with no unary operation between
                    op2 = op if rng.random() < 0.7 else ("join" if op == "chain" else "chain")
                    if op2 in cfg.ops and (op2 != "join" or new[2].startswith("sql")):
                        new = self.binary(new, op2, depth) or new
                if new and self.expanded_size(new[0]) > cfg.max_expanded_nodes:
                    continue  # keep compiled statements within what SQLite plans in reasonable time
            else:
                if want_cols is not None and op == "proj":
                    continue
                new = self.unary(state, op)
            if new:
                state = new
                if op == "sort" and cfg.sort_then_slice_prob and rng.random() < cfg.sort_then_slice_prob:
                    state = self.unary(state, "slice")
        if want_cols is not None and state[1] != frozenset(want_cols):
            state = ["proj", state[0], sorted(want_cols), None], frozenset(want_cols), state[2]
        return state

    def expanded_size(self, prog) -> int:
        """Number of nodes of the program with shared operands written out (what an engine has to
        compile); binary operations on shared operands grow this exponentially."""
        k = id(prog)
        if k not in self._sizes:
            if prog[0] == "leaf":
                n = 1
            elif prog[0] in ("chain", "join"):
                n = 1 + self.expanded_size(prog[1]) + self.expanded_size(prog[2])
            else:
                n = 1 + self.expanded_size(prog[1])
            self._sizes[k] = (n, prog)  # keep prog alive so that id() stays unique
        return self._sizes[k][0]

    def to_engine(self, state, eng):
        if state[2] == eng:
            return state
        return ["xfer", state[0], eng], state[1], eng

    def binary(self, state, op, depth):
        rng = self.rng
        prog, cols, eng = state
        if op == "chain":
            r = rng.random()
            two = None
            if r < 0.08 and cols:
                # two branches off one shared operand that add the SAME new column with different
                # expressions: rows handed on by the shared operand must not be shared between them
                free = [c for c in KEYS if c not in cols]
                if free:
                    e1, e2 = gen_e(rng, cols, 1, need_col=True), gen_e(rng, cols, 2, need_col=True)
                    if ecols(e1) and ecols(e2):
                        two = (["calc", prog, free[0], e1, None], ["calc", prog, free[0], e2, None])
            if two is not None:
                return ["chain", two[0], two[1]], cols | {free[0]}, eng
            if r < 0.25:
                other = state  # self-chain (shared operand)
            elif r < 0.4:
                # another view of the same (shared) operand; a sort here makes the engine sort rows
                # that the other operand is reading too
                new = self.unary(state, rng.choice(["sel", "slice", "dedup", "sort", "sort"]))
                if new and new[0][0] == "sort" and eng.startswith("sql"):
                    new = self.unary(new, "slice")  # an unsliced sort cannot be chained in SQL
                other = new if new else state
            else:
                other = self.tree(depth - 1, eng if not self.cfg.xfer_prob else None, want_cols=cols)
            other = self.to_engine(other, eng)
            if rng.random() < 0.5:
                return ["chain", prog, other[0]], cols, eng
            return ["chain", other[0], prog], cols, eng
        # join
        r = rng.random()
        if r < 0.12:
            other = state  # self-join (shared operand)
        elif r < 0.24:
            other = self.unary(state, rng.choice(["sel", "proj", "slice", "dedup"])) or state  # another view of the same operand
        else:
            other = self.tree(depth - 1, eng if not self.cfg.xfer_prob else None)
        oprog, ocols, oeng = other
        shared_nonkey = {c for c in cols & ocols if not is_key(c)}
        if shared_nonkey:
            keep = ocols - shared_nonkey
            oprog, ocols = ["proj", oprog, sorted(keep), None], frozenset(keep)
        oprog, ocols, oeng = self.to_engine((oprog, ocols, oeng), eng)
        allc = cols | ocols
        p = gen_p(rng, allc, 1, wild_ranges=self.cfg.wild_ranges) if rng.random() < self.cfg.join_pred_prob else None
        if rng.random() < 0.5:
            return ["join", prog, oprog, p, None], allc, eng
        return ["join", oprog, prog, p, None], allc, eng


def flavour_leaves(leaves: dict, rng) -> int:
    """Replace some integer leaf values by numerically equal values of another Python type
    (1 -> 1.0 / True, 0 -> 0.0 / -0.0 / False, n -> float(n)).  Every comparison, sort and
    deduplication treats them as equal, so *which* of several equal rows survives (first occurrence,
    stable order) becomes observable through the types.  Iteration-engine leaves only."""
    n = 0
    for spec in leaves.values():
        if spec["engine"].startswith("sql") or spec.get("kind") != "normal":
            continue
        for row in spec["rows"]:
            for i, v in enumerate(row):
                if type(v) is not int or rng.random() < 0.5:
                    continue
                r = rng.random()
                if v in (0, 1) and r < 0.4:
                    row[i] = bool(v)
                elif v == 0 and r < 0.55:
                    row[i] = -0.0
                else:
                    row[i] = float(v)
                n += 1
    return n


def sprinkle_options(prog, rng, engines, prob, kinds=("calc", "proj", "sel", "dedup", "sort")):
    """Copy of ``prog`` in which unary factory calls downstream of a transfer carry preferred-engine
    options (preferred engine drawn from ``engines``, backtracking on, no transfer, not required):
    the library may then insert the operation upstream, which must not change what the tree yields."""
    op = prog[0]
    if op == "leaf":
        return prog, False
    if op in ("chain", "join"):
        a, xa = sprinkle_options(prog[1], rng, engines, prob, kinds)
        b, xb = sprinkle_options(prog[2], rng, engines, prob, kinds)
        return [op, a, b] + list(prog[3:]), xa or xb
    sub, has_x = sprinkle_options(prog[1], rng, engines, prob, kinds)
    new = [op, sub] + list(prog[2:])
    if op == "xfer":
        return new, True
    if has_x and op in kinds and not isinstance(new[-1], dict) and rng.random() < prob:
        new[-1] = {"pe": rng.choice(engines), "bt": True, "tr": False, "rq": False}
    return new, has_x


def case_from(gen: Gen, state) -> dict:
    prog, cols, eng = state
    if gen.cfg.flavour_prob and gen.rng.random() < gen.cfg.flavour_prob:
        flavour_leaves(gen.leaves, gen.rng)
    return {"leaves": gen.leaves, "prog": prog, "cols": sorted(cols), "engine": eng}


def op_signature(prog) -> str:
    """Operation-type skeleton of a program (used for distinct-case counting)."""
    op = prog[0]
    if op == "leaf":
        return "L"
    if op in ("chain", "join"):
        return f"({op_signature(prog[1])}{'U' if op == 'chain' else 'J'}{op_signature(prog[2])})"
    short = {"calc": "c", "proj": "p", "sel": "s", "dedup": "d", "sort": "o", "slice": "l", "mat": "m", "xfer": "x", "mark": "k", "cap": "f", "rev": "r", "alt": "h"}
    return op_signature(prog[1]) + short[op]


def hidden_collision_join(g: Gen, rng, eng):
    """Join of two projections of leaves that have the same columns, each projection hiding a
    column the other one keeps (crossing collision of hidden and visible column names): every
    output column has to come from the operand that exposes it."""
    pool = list("abc") + [rng.choice(["d", "x"])]
    cols = sorted(rng.sample(pool, rng.randint(3, 4)))
    l1 = g.leaf(eng, want_cols=cols, allow_special=False)
    l2 = g.leaf(eng, want_cols=cols, allow_special=False)
    shared = sorted(set(l1[1]) & set(l2[1]))
    for _ in range(20):
        h1, h2 = rng.choice(shared), rng.choice(shared)
        if h1 != h2:
            break
    else:
        return None
    p1 = {c for c in l1[1] if c != h1 and (c == h2 or rng.random() < 0.7)}
    p2 = {c for c in l2[1] if c != h2 and (c == h1 or rng.random() < 0.7)}
    # a non-key column may be visible on one side only (otherwise the join is ambiguous)
    for c in list(p1 & p2):
        if not is_key(c):
            (p1 if rng.random() < 0.5 else p2).discard(c)
    lhs = ["proj", l1[0], sorted(p1), None]
    rhs = ["proj", l2[0], sorted(p2), None]
    allc = frozenset(p1 | p2)
    pred = gen_p(rng, allc, 1) if rng.random() < 0.3 else None
    return ["join", lhs, rhs, pred, None], allc, eng


def chain_with_name_twin(g: Gen, state, rng):
    """Chain a program with the same program over "twin" leaves: same library name, columns and
    engine (so the relations compare equal) but different rows and truthful bounds of their own.
    Returns the new state or None if the program cannot be twinned."""
    from .model import subprograms

    prog, cols, eng = state
    twins = {}
    for name in {s[1] for s in subprograms(prog) if s[0] == "leaf"}:
        spec = g.leaves[name]
        if spec.get("kind") != "normal" or spec.get("table_of") or spec.get("mapping_key") or name.endswith("t"):
            return None
        t = dict(spec)
        t["libname"] = spec.get("libname", name)
        shift = rng.choice([-3, 2, 4])
        t["rows"] = [[v + shift for v in r] for r in spec["rows"]] if rng.random() < 0.7 else []
        if rng.random() < 0.4:
            t["rows"] = t["rows"] + [list(r) for r in t["rows"][:2]]
        n = len(t["rows"])
        t["min"], t["max"] = (n, n) if spec.get("min") == len(spec["rows"]) and spec.get("max") == len(spec["rows"]) else (0, None)
        twins[name] = t
    if not twins:
        return None
    for name, t in twins.items():
        g.leaves[name + "t"] = t
    ops = ("leaf", "calc", "proj", "sel", "dedup", "sort", "slice", "chain", "join", "mat", "xfer", "mark", "cap", "rev", "alt")

    def retarget(p):
        if p[0] == "leaf":
            return ["leaf", p[1] + "t"]
        if p[0] == "mat":
            return ["mat", retarget(p[1]), p[2] + "t"]
        return [retarget(x) if isinstance(x, list) and x and isinstance(x[0], str) and x[0] in ops else x for x in p]

    twin_prog = retarget(prog)
    return (["chain", prog, twin_prog] if rng.random() < 0.5 else ["chain", twin_prog, prog], cols, eng)
