"""Column tags used by every workload (independent of ``lsst.daf.relation.tests``)."""
from __future__ import annotations

import dataclasses


@dataclasses.dataclass(frozen=True)
class Tag:
    qualified_name: str
    is_key: bool = True

    def __repr__(self) -> str:
        return self.qualified_name

    def __hash__(self) -> int:  # deterministic set order, like the library's test tag
        return int.from_bytes(self.qualified_name.encode(), byteorder="little")


KEYS = "abcdefg"
NONKEYS = "xyz"
TAGS: dict[str, Tag] = {n: Tag(n) for n in KEYS}
TAGS.update({n: Tag(n, is_key=False) for n in NONKEYS})


def T(name: str) -> Tag:
    return TAGS[name]


def names(tags) -> list[str]:
    return sorted(t.qualified_name for t in tags)


def is_key(name: str) -> bool:
    return TAGS[name].is_key
