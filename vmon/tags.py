"""Column tags used by every workload (independent of ``lsst.daf.relation.tests``)."""
from __future__ import annotations

import dataclasses


@dataclasses.dataclass(frozen=True)
class Tag:
    qualified_name: str
    is_key: bool = True

    def __repr__(self) -> str:
        return self.qualified_name

    def __hash__(self) -> int:  # deterministic set order, like the library's test tag
        return int.from_bytes(self.qualified_name.encode(), byteorder="little")


KEYS = "abcdefg"
NONKEYS = "xyz"
TAGS: dict[str, Tag] = {n: Tag(n) for n in KEYS}
TAGS.update({n: Tag(n, is_key=False) for n in NONKEYS})


# Two key tags with long qualified names that share their first 70 characters (descriptive names
# assembled from several parts, as production code has them).  Only workloads that never map column
# names back to the model's one-letter names use them (C08).
_LONG = "deep_coadd_forced_source_table__visit_detector_region__measurement_flux_"
TAGS["p"] = Tag(_LONG + "instrumental_id")
TAGS["q"] = Tag(_LONG + "instrumental_ordinal")


def T(name: str) -> Tag:
    return TAGS[name]


def names(tags) -> list[str]:
    return sorted(t.qualified_name for t in tags)


def is_key(name: str) -> bool:
    return TAGS[name].is_key
