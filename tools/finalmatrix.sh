#!/bin/bash
# Final seed matrix: newest round first, then the other recent rounds against every check,
# then the early rounds against their own property's check.
cd "$(dirname "$0")/.."
mkdir -p .work
LANES=${LANES1:-1} SEED_GLOB="seeded/C*-r7" OUT=.work/matrix_final tools/seedmatrix.sh > .work/matrix_r7.md
LANES=2 SEED_GLOB="seeded/C*-r[456]" OUT=.work/matrix_final tools/seedmatrix.sh > .work/matrix_r456.md
LANES=2 SEED_CHECKS=own SEED_GLOB="seeded/C*-r[123]" OUT=.work/matrix_own tools/seedmatrix.sh > .work/matrix_r123_own.md
