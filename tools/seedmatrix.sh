#!/bin/bash
# Run registered quick checks against kept seeded changes.
#   SEED_GLOB   which changes (default: all, "seeded/C*-r*")
#   SEED_CHECKS comma list of checks, or "own" = only the check of the property the change was
#               written against (default: every check)
#   LANES       parallel lanes (default 2; each check uses 8 workers)
#   OUT         result directory (default .work/matrix)
cd "$(dirname "$0")/.."
OUT=${OUT:-.work/matrix}
mkdir -p "$OUT"
ls -d ${SEED_GLOB:-seeded/C*-r*} | sort > "$OUT/all.txt"
rm -f "$OUT"/lane*
split -n l/${LANES:-2} -d "$OUT/all.txt" "$OUT/lane"
for lane in "$OUT"/lane0*; do
  ( while read d; do
      checks=$SEED_CHECKS
      if [ "$checks" = "own" ]; then checks=$(basename "$d" | cut -c1-3); fi
      python3 tools/seedtest.py "$d" ${checks:+--checks $checks} > "$OUT/$(basename $d).json" 2>&1
    done < "$lane" ) &
done
wait
python3 - "$OUT" <<'PY'
import json, glob, os, sys
out = sys.argv[1]
rows = []
for f in sorted(glob.glob(out + '/C*.json')):
    name = os.path.basename(f)[:-5]
    try:
        d = json.load(open(f))
    except Exception:
        rows.append((name, "unparsed", "", "")); continue
    rows.append((name, d.get("tests", ""), ",".join(c["check"] for c in d.get("caught_by", [])), ",".join(c["check"] for c in d.get("inconclusive", []))))
print("| seeded change | suite with change | caught by (quick tier, seed 0) | inconclusive |")
print("|---|---|---|---|")
for r in rows:
    print("| " + " | ".join(r) + " |")
PY
