#!/bin/bash
# Run every registered quick check against every kept seeded change; 4 lanes.
cd "$(dirname "$0")/.."
mkdir -p .work/matrix
ls -d seeded/C*-r* | sort > .work/matrix/all.txt
split -n l/4 -d .work/matrix/all.txt .work/matrix/lane
for lane in .work/matrix/lane0*; do
  ( while read d; do python3 tools/seedtest.py "$d" ${SEED_CHECKS:+--checks $SEED_CHECKS} > ".work/matrix/$(basename $d).json" 2>&1; done < "$lane" ) &
done
wait
python3 - <<'PY'
import json, glob, os
rows = []
for f in sorted(glob.glob('.work/matrix/C*.json')):
    name = os.path.basename(f)[:-5]
    try:
        d = json.load(open(f))
    except Exception:
        rows.append((name, "unparsed", "", "")); continue
    rows.append((name, d.get("tests", ""), ",".join(c["check"] for c in d.get("caught_by", [])), ",".join(c["check"] for c in d.get("inconclusive", []))))
print("| seeded change | suite with change | caught by (quick tier, seed 0) | inconclusive |")
print("|---|---|---|---|")
for r in rows:
    print("| " + " | ".join(r) + " |")
PY
