#!/bin/bash
# Run the repository's pinned test suite (BASELINE command) with monitors off.
cd /repo && env -u DAF_RELATION_VMON /venv/bin/python -m pytest -ra -q -p no:cacheprovider --timeout=900 --continue-on-collection-errors "$@" 2>&1 | tail -5
