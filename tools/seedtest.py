#!/usr/bin/env python3
"""Run the registered checks against a seeded change.

usage: tools/seedtest.py <dir with patch.diff [demo.py]> [--checks C01,C05] [--tier quick] [--seeds 0]

Creates a scratch worktree of /repo outside /repo and /verif, applies the patch,
confirms the repository's own tests still pass there (and that demo.py fails with
the change and passes without), runs the checks with VERIF_REPO pointing at the
scratch tree, prints which checks raise VIOLATION, and removes the worktree.
"""
import argparse
import json
import os
import shutil
import subprocess
import sys
import tempfile

VERIF = os.path.dirname(os.path.dirname(os.path.abspath(__file__)))


def sh(cmd, **kw):
    return subprocess.run(cmd, shell=True, capture_output=True, text=True, **kw)


def main():
    ap = argparse.ArgumentParser()
    ap.add_argument("dir")
    ap.add_argument("--checks", default="all")
    ap.add_argument("--tier", default="quick")
    ap.add_argument("--seeds", default="0")
    ap.add_argument("--keep", action="store_true")
    a = ap.parse_args()
    a.dir = os.path.abspath(a.dir)
    patch = os.path.join(a.dir, "patch.diff")
    demo = os.path.join(a.dir, "demo.py")
    tmp = tempfile.mkdtemp(prefix="seedwt_", dir=os.environ.get("TMPDIR", "/tmp"))
    wt = os.path.join(tmp, "wt")
    res = {"dir": a.dir, "caught_by": [], "missed_by": [], "inconclusive": []}
    try:
        r = sh(f"git -C /repo worktree add -q --detach {wt} HEAD")
        if r.returncode:
            print(r.stderr)
            return 2
        shutil.copy("/repo/python/lsst/daf/relation/version.py", f"{wt}/python/lsst/daf/relation/version.py")
        env = dict(os.environ, PYTHONPATH=f"{wt}/python")
        env.pop("DAF_RELATION_VMON", None)
        if os.path.exists(demo):
            r = sh(f"cd {wt} && /venv/bin/python {demo}", env=env)
            res["demo_without_change_rc"] = r.returncode
        r = sh(f"git -C {wt} apply --whitespace=nowarn {patch}")
        if r.returncode:
            # the repository may have moved on since the change was written: retry with fuzz
            r = sh(f"cd {wt} && patch -p1 -F3 --no-backup-if-mismatch < {patch}")
        if r.returncode:
            print("patch does not apply:", r.stderr[:500])
            res["applies"] = False
            print(json.dumps(res))
            return 2
        res["applies"] = True
        r = sh(f"cd {wt} && /venv/bin/python -m pytest -q -p no:cacheprovider --timeout=900 tests 2>&1 | tail -3", env=env)
        res["tests"] = r.stdout.strip().splitlines()[-1] if r.stdout.strip() else r.stderr[-200:]
        if os.path.exists(demo):
            r = sh(f"cd {wt} && /venv/bin/python {demo}", env=env)
            res["demo_with_change_rc"] = r.returncode
        checks = [f"C{i:02d}" for i in range(1, 21)] if a.checks == "all" else a.checks.split(",")
        env2 = dict(os.environ, VERIF_REPO=wt)
        for c in checks:
            for seed in a.seeds.split(","):
                r = sh(f"cd {VERIF} && VERIF_SEED={seed} ./vcheck {c} --tier {a.tier}", env=env2)
                lines = r.stdout.splitlines()
                viol = [ln for ln in lines if ln.startswith("VIOLATION")]
                if r.returncode == 1 and viol:
                    detail = next((ln.strip() for ln in lines if ln.strip().startswith("kind=")), "")
                    res["caught_by"].append({"check": c, "seed": seed, "detail": detail[:300]})
                    break
                elif r.returncode == 2:
                    res["inconclusive"].append({"check": c, "seed": seed, "why": (lines[-1] if lines else r.stderr[-200:])[:300]})
            else:
                res["missed_by"].append(c)
        print(json.dumps(res, indent=1))
    finally:
        if not a.keep:
            sh(f"git -C /repo worktree remove --force {wt}")
            shutil.rmtree(tmp, ignore_errors=True)
            shutil.rmtree(os.path.join(VERIF, ".work", "alt", "wt"), ignore_errors=True)
    return 0


if __name__ == "__main__":
    sys.exit(main())
