#!/usr/bin/env python3
"""Write seeded/RESULTS.md from the kept seeded changes and the matrix results.

usage: tools/mkresults.py <full-matrix-dir> <own-check-matrix-dir> <commit> [<own-check-after-strengthening-dir>]

<full-matrix-dir>: tools/seedtest.py outputs (one <change>.json each) of runs against every check;
<own-check-matrix-dir>: outputs of runs against the change's own property's check only.
"""
import glob
import json
import os
import sys

full_dir, own_dir, commit = sys.argv[1], sys.argv[2], sys.argv[3]
after_dir = sys.argv[4] if len(sys.argv) > 4 else None
root = os.path.join(os.path.dirname(os.path.abspath(__file__)), "..")
rows = []
stats = {"n": 0, "caught": 0, "own": 0, "unconfirmed": 0}
for d in sorted(glob.glob(os.path.join(root, "seeded", "C*-r*"))):
    name = os.path.basename(d)
    meta = json.load(open(os.path.join(d, "meta.json")))
    own_id = name[:3]
    first = meta.get("first_run_caught_by")
    if first is None:
        first = meta.get("caught_by_quick_checks")
    if first is None and "first_run_own_check" in meta:
        first = meta["first_run_own_check"]
    full = own = None
    tests = demo = ""
    f = os.path.join(full_dir, name + ".json")
    if os.path.exists(f):
        try:
            r = json.load(open(f))
            full = [c["check"] for c in r.get("caught_by", [])]
            own = own_id in full
            tests = r.get("tests", "")
            demo = f"{r.get('demo_without_change_rc')}/{r.get('demo_with_change_rc')}"
        except Exception:  # noqa: BLE001
            full = None
    f = os.path.join(own_dir, name + ".json")
    if full is None and os.path.exists(f):
        try:
            r = json.load(open(f))
            own = own_id in [c["check"] for c in r.get("caught_by", [])]
            tests = r.get("tests", "")
            demo = f"{r.get('demo_without_change_rc')}/{r.get('demo_with_change_rc')}"
        except Exception:  # noqa: BLE001
            pass
    note = meta.get("note") or ""
    own_txt = {True: "yes", False: "no", None: "?"}[own]
    f = os.path.join(after_dir, name + ".json") if after_dir else None
    if f and os.path.exists(f) and not own:
        r = json.load(open(f))
        if own_id in [c["check"] for c in r.get("caught_by", [])]:
            own, own_txt = True, "yes (after strengthening)"
    if demo and demo != "0/1":
        note = (note + "; " if note else "") + f"demonstration now exits {demo} (without/with the change) on the current tree"
    stats["n"] += 1
    everything = set(full or []) | set(first or []) | set(meta.get("also_caught_by", [])) | ({own_id} if own else set())
    stats["caught"] += bool(everything)
    stats["own"] += bool(own)
    rows.append((name, ", ".join(os.path.basename(x) for x in meta.get("files", [])), meta["summary"][:140].replace("|", "/").replace("\n", " "),
                 (",".join(first) if first else ("(own check: missed)" if "first_run_own_check" in meta else "-")) if first is not None else "-",
                 ",".join(full) if full is not None else ("own check only" + ("; also caught by: " + ",".join(meta["also_caught_by"]) if meta.get("also_caught_by") else "")),
                 own_txt, tests.split(" in ")[0], note.replace("|", "/")))

with open(os.path.join(root, "seeded", "RESULTS.md"), "w") as out:
    out.write("# Seeded changes vs. registered quick checks\n\n")
    out.write(
        "Each change was produced by an independent sub-agent that saw only the text of one property (see `meta.json`), passes the\n"
        "repository's 82 tests and fails its own demonstration.  Columns: *first run* = checks that caught it when it was first\n"
        "tried (before any strengthening made because of it; from round 8 on only the change's own property's check was run first);\n"
        "*final matrix* = every registered quick check (seed 0) where such a run exists, otherwise the own check only;\n"
        f"*own* = caught by the check of the property it was written against in the last own-check run (`tools/seedmatrix.sh` with\n"
        f"SEED_CHECKS=own, seed 0; rounds 1-7 at the commit of round 10, re-run at {commit} where they had been missed; rounds 8-12 at {commit}).\n"
        "Changes noted as neutralised no longer apply or no longer fail their demonstration since a later `fix:` commit.\n\n"
        f"Totals: {stats['n']} changes, {stats['caught']} caught by at least one check, {stats['own']} by their own property's check.\n\n"
    )
    out.write("| change | file(s) | what was changed | first run | final matrix | own | suite with change | note |\n|---|---|---|---|---|---|---|---|\n")
    for r in rows:
        out.write("| " + " | ".join(r) + " |\n")
print(stats)
