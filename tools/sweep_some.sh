#!/bin/bash
# usage: tools/sweep_some.sh <tier> <seed> C02 C03 ...
tier=$1; seed=$2; shift 2
for c in "$@"; do
  out=$(VERIF_SEED=$seed ./vcheck $c --tier $tier 2>&1); rc=$?
  echo "seed=$seed $c rc=$rc $(echo "$out" | grep -v '^KNOWN' | tail -1 | cut -c1-220)"
  if [ $rc -ne 0 ]; then echo "$out" | grep -v '^KNOWN' | head -12 | cut -c1-600; fi
done
