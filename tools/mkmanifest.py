#!/usr/bin/env python3
"""Regenerate MANIFEST.json from the check modules present in vmon/checks."""
import importlib
import json
import os
import sys

VERIF = os.path.dirname(os.path.dirname(os.path.abspath(__file__)))
sys.path.insert(0, VERIF)
os.environ.setdefault("PYTHONHASHSEED", "0")

props = [json.loads(l) for l in open(os.path.join(VERIF, "properties.jsonl"))]
checks = []
na = []
for p in props:
    pid = p["id"]
    path = os.path.join(VERIF, "vmon", "checks", pid.lower() + ".py")
    if not os.path.exists(path):
        na.append({"property_id": pid, "reason": "check not built yet (work in progress; see DESIGN.md section 8 for the planned monitor)"})
        continue
    m = importlib.import_module(f"vmon.checks.{pid.lower()}")
    checks.append({
        "property_id": pid,
        "quick_cmd": f"./vcheck {pid} --tier quick",
        "thorough_cmd": f"./vcheck {pid} --tier thorough",
        "evidence_file": f"evidence/{pid}.json",
        "replay_cmd_template": f"./vcheck {pid} --replay {{path}}",
        "engine": "vmon",
        "level_claimed": {
            "category": m.LEVEL,
            "text": getattr(m, "LEVEL_TEXT", m.RULE),
            "design_ref": f"DESIGN.md section 8, {pid}",
        },
        "level_note": getattr(m, "LEVEL_NOTE", "; ".join(getattr(m, "ASSUMPTIONS", []))) or "reference model vmon/model.py + vmon/interp.py",
        "technique": getattr(m, "TECHNIQUE", "runtime monitoring: reference-model oracle over executions of the real code on generated workloads"),
    })
manifest = {
    "version": 1,
    "setup_cmd": "./vcheck --setup",
    "hooks": {
        "guard": "DAF_RELATION_VMON",
        "enable": "monitors are installed from the harness by the check process itself (class-attribute patching, icontract contracts, sys.monitoring) when DAF_RELATION_VMON=1; the repository is imported unmodified from /repo's working tree (VERIF_REPO overrides)",
        "baseline_off_cmd": "cd /repo && env -u DAF_RELATION_VMON /venv/bin/python -m pytest -ra -q -p no:cacheprovider --timeout=900 --continue-on-collection-errors",
        "source_commits": [],
        "add_only": True,
    },
    "engines": [{
        "name": "vmon",
        "path": "vmon/",
        "serves_properties": [c["property_id"] for c in checks],
        "kind_free_text": "runtime monitors (reference-model, invariant-at-hook, history, schedule perturbation) driven by seeded hostile workload generators; sharded over subprocess workers",
    }],
    "checks": checks,
    "not_applicable": na,
    "notes": "All checks run the real code from /repo's working tree; see DESIGN.md. Exit 2 + INCONCLUSIVE line = neither held nor violated.",
}
json.dump(manifest, open(os.path.join(VERIF, "MANIFEST.json"), "w"), indent=1)
print("claimed", [c["property_id"] for c in checks], "not_applicable", len(na))
