#!/bin/bash
# usage: tools/sweep.sh <tier> <seed> [<seed> ...]   - every check on the unchanged tree for each seed
tier=$1; shift
for s in "$@"; do
  for i in $(seq -w 1 20); do
    out=$(VERIF_SEED=$s ./vcheck C$i --tier $tier 2>&1); rc=$?
    echo "seed=$s C$i rc=$rc $(echo "$out" | grep -v '^KNOWN' | tail -1 | cut -c1-220)"
    if [ $rc -ne 0 ]; then echo "$out" | grep -v '^KNOWN' | head -12 | cut -c1-500; fi
  done
done
