#!/bin/bash
# usage: tools/stage_round.sh <round dir, e.g. /tmp/r9> <suffix, e.g. r9> <ids...>
# Copies a delivered seeded change into seeded/<id>-<suffix>/ and runs its own property's check on it.
cd "$(dirname "$0")/.."
src=$1; suf=$2; shift 2
mkdir -p .work/stage
for id in "$@"; do
  d=seeded/$id-$suf; mkdir -p $d
  cp $src/$id/out/patch.diff $src/$id/out/demo.py $src/$id/out/meta.json $d/ || continue
  python3 tools/seedtest.py $d --checks $id > .work/stage/$id-$suf.json 2>&1
  python3 - "$id" "$suf" <<'PY'
import json,sys
i,s=sys.argv[1:3]
try:
    d=json.load(open(f'.work/stage/{i}-{s}.json'))
    print(i, s, 'applies', d.get('applies'), '|', d.get('tests'), '| demo', d.get('demo_without_change_rc'), d.get('demo_with_change_rc'), '| own check:', [c['check'] for c in d.get('caught_by',[])] or 'MISSED', d.get('inconclusive') or '')
except Exception as e:
    print(i, s, 'unparsed', e)
PY
done
